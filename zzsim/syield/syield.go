// Package syield is the scheduling point the rewriter inserts before every statement of an
// Engine-B package.  The harness installs Hook; without a hook it is a no-op.
package syield

var Hook func(loc string)

func Y(loc string) {
	if Hook != nil {
		Hook(loc)
	}
}
