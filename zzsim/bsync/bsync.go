// Package bsync has the API of sync for Engine B (synctest bubble with inserted yields).
// A goroutine may be parked at an inserted yield while it holds a lock; a real sync.Mutex
// would leave the others blocked in a way synctest does not consider durable, and the
// bubble would never become quiescent.  Mutex and RWMutex are therefore built on channels
// created inside the bubble (a blocked Lock is a durably blocked channel send); everything
// else is the real thing.
package bsync

import (
	"sync"

	"github.com/welllog/golib/zzsim/core"
)

type (
	WaitGroup = sync.WaitGroup
	Once      = sync.Once
	Pool      = core.Pool
	Map       = sync.Map
	Locker    = sync.Locker
	Cond      = sync.Cond
)

func NewCond(l Locker) *Cond   { return sync.NewCond(l) }
func OnceFunc(f func()) func() { return sync.OnceFunc(f) }

type Mutex struct {
	init sync.Mutex // protects the lazy creation of ch only; never held across a yield
	ch   chan struct{}
}

func (m *Mutex) sem() chan struct{} {
	m.init.Lock()
	if m.ch == nil {
		m.ch = make(chan struct{}, 1)
	}
	c := m.ch
	m.init.Unlock()
	return c
}

func (m *Mutex) Lock() { m.sem() <- struct{}{} }

func (m *Mutex) Unlock() {
	select {
	case <-m.sem():
	default:
		panic("sync: unlock of unlocked mutex")
	}
}

func (m *Mutex) TryLock() bool {
	select {
	case m.sem() <- struct{}{}:
		return true
	default:
		return false
	}
}

// RWMutex: readers are admitted one at a time as well.  That removes reader parallelism (a
// restriction on which real schedules are reached, never an infeasible one).
type RWMutex struct{ m Mutex }

func (x *RWMutex) Lock()           { x.m.Lock() }
func (x *RWMutex) Unlock()         { x.m.Unlock() }
func (x *RWMutex) RLock()          { x.m.Lock() }
func (x *RWMutex) RUnlock()        { x.m.Unlock() }
func (x *RWMutex) TryLock() bool   { return x.m.TryLock() }
func (x *RWMutex) TryRLock() bool  { return x.m.TryLock() }
func (x *RWMutex) RLocker() Locker { return &x.m }
