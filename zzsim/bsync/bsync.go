// Package bsync has the API of sync for Engine B (synctest bubble with inserted yields).
// A goroutine may be parked at an inserted yield while it holds a lock; a real sync.Mutex
// would leave the others blocked in a way synctest does not consider durable, and the
// bubble would never become quiescent.  Mutex and RWMutex are therefore built on channels
// created inside the bubble (a blocked Lock is a durably blocked channel send).
//
// WaitGroup is a model of sync.WaitGroup with the steps of the real one that a schedule can
// separate: the counter/waiter state, the semaphore that the last Done posts once per registered
// waiter, and the re-check a waiter makes when it finally runs.  A woken waiter has not run yet:
// until it does, anybody may call Add again, and a waiter that arrives later may take the wake-up
// that was posted for an earlier one (the runtime semaphore allows barging).  Both end in the
// real WaitGroup's own panic "WaitGroup is reused before previous Wait has returned", which the
// real one raises in exactly these states.  With the real WaitGroup inside the bubble none of
// this is reachable, because wake-up and re-check happen inside one uninterruptible step.
// Everything else is the real thing.
package bsync

import (
	"os"
	"sync"

	"github.com/welllog/golib/zzsim/core"
	"github.com/welllog/golib/zzsim/syield"
)

type (
	Pool   = core.Pool
	Map    = sync.Map
	Locker = sync.Locker
	Cond   = sync.Cond
)

func NewCond(l Locker) *Cond { return sync.NewCond(l) }

// Once is a model of sync.Once over the channel-based Mutex: the function may contain inserted
// yields, and a goroutine parked at one inside the real Once would hold its real mutex, on which
// a second caller does not block "durably" - the bubble would never become quiescent.  As with
// the real one, a Do whose function panics counts as done.
type Once struct {
	m    Mutex
	done bool
}

func (o *Once) Do(f func()) {
	o.m.Lock()
	defer o.m.Unlock()
	if !o.done {
		defer func() { o.done = true }()
		f()
	}
}

func OnceFunc(f func()) func() {
	g := OnceValue(func() struct{} { f(); return struct{}{} })
	return func() { g() }
}

// OnceValue and OnceValues as in sync (go 1.21), over the modelled Once.
func OnceValue[T any](f func() T) func() T {
	var o Once
	var v T
	var p any
	ok := false
	return func() T {
		o.Do(func() {
			defer func() {
				if !ok {
					p = recover()
					panic(p)
				}
			}()
			v = f()
			ok = true
		})
		if !ok {
			panic(p)
		}
		return v
	}
}

func OnceValues[T1, T2 any](f func() (T1, T2)) func() (T1, T2) {
	type pair struct {
		a T1
		b T2
	}
	g := OnceValue(func() pair { a, b := f(); return pair{a, b} })
	return func() (T1, T2) { p := g(); return p.a, p.b }
}

type Mutex struct {
	init sync.Mutex // protects the lazy creation of ch only; never held across a yield
	ch   chan struct{}
}

func (m *Mutex) sem() chan struct{} {
	m.init.Lock()
	if m.ch == nil {
		m.ch = make(chan struct{}, 1)
	}
	c := m.ch
	m.init.Unlock()
	return c
}

func (m *Mutex) Lock() { m.sem() <- struct{}{} }

func (m *Mutex) Unlock() {
	select {
	case <-m.sem():
	default:
		panic("sync: unlock of unlocked mutex")
	}
}

func (m *Mutex) TryLock() bool {
	select {
	case m.sem() <- struct{}{}:
		return true
	default:
		return false
	}
}

// RWMutex: readers are admitted one at a time as well.  That removes reader parallelism (a
// restriction on which real schedules are reached, never an infeasible one).
type RWMutex struct{ m Mutex }

func (x *RWMutex) Lock()           { x.m.Lock() }
func (x *RWMutex) Unlock()         { x.m.Unlock() }
func (x *RWMutex) RLock()          { x.m.Lock() }
func (x *RWMutex) RUnlock()        { x.m.Unlock() }
func (x *RWMutex) TryLock() bool   { return x.m.TryLock() }
func (x *RWMutex) TryRLock() bool  { return x.m.TryLock() }
func (x *RWMutex) RLocker() Locker { return &x.m }

// atomicWG (VERIF_WG_ATOMIC=1) removes the scheduling point between a waiter's wake-up and its
// re-check, which gives the behaviour of the real WaitGroup inside the bubble.  Only the
// sensitivity tool sets it, for patches written against the tree before fix c49120b.
var atomicWG = os.Getenv("VERIF_WG_ATOMIC") == "1"

// WaitGroup: see the package comment.
type WaitGroup struct {
	mu     sync.Mutex // guards the fields for a few instructions; never held across a blocking point
	v, w   int        // counter, registered waiters
	tokens int        // wake-ups posted and not yet consumed
	gate   chan struct{}
}

func (wg *WaitGroup) Add(delta int) {
	wg.mu.Lock()
	wg.v += delta
	switch {
	case wg.v < 0:
		wg.mu.Unlock()
		panic("sync: negative WaitGroup counter")
	case wg.w != 0 && delta > 0 && wg.v == delta:
		wg.mu.Unlock()
		panic("sync: WaitGroup misuse: Add called concurrently with Wait")
	case wg.v > 0 || wg.w == 0:
		wg.mu.Unlock()
		return
	}
	// the counter reached zero with waiters registered: reset the state, post one wake-up each
	wg.tokens += wg.w
	wg.w = 0
	if wg.gate != nil {
		close(wg.gate)
		wg.gate = nil
	}
	wg.mu.Unlock()
}

func (wg *WaitGroup) Done() { wg.Add(-1) }

func (wg *WaitGroup) Go(f func()) {
	wg.Add(1)
	go func() {
		defer wg.Done()
		f()
	}()
}

func (wg *WaitGroup) Wait() {
	wg.mu.Lock()
	if wg.v == 0 {
		wg.mu.Unlock()
		return
	}
	wg.w++
	for wg.tokens == 0 {
		if wg.gate == nil {
			wg.gate = make(chan struct{})
		}
		g := wg.gate
		wg.mu.Unlock()
		<-g
		// woken, but not running yet: the scheduler decides when this goroutine continues
		if !atomicWG {
			syield.Y("sync.WaitGroup.Wait (woken)")
		}
		wg.mu.Lock()
	}
	wg.tokens--
	bad := wg.v != 0 || wg.w != 0
	wg.mu.Unlock()
	if bad {
		panic("sync: WaitGroup is reused before previous Wait has returned")
	}
}
