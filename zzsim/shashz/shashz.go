// Package shashz stands in for golib's hashz where a package under test uses a hash of an
// identifier as its "random" choice (randz.CountGenerator).  Like the tower heights of a skip list
// the hash value is an internal pseudo-random decision: the simulator owns it.  Within one case
// the same identifier always hashes to the same value; which value is drawn from the environment
// PRNG, with the extremes of the documented range [0, 2^31-1] over-represented.
package shashz

import "github.com/welllog/golib/zzsim/core"

var (
	table = map[string]uint32{}
	// Draws counts the identifiers hashed since Reset; Extremes those that got an extreme value.
	Draws, Extremes int
)

// Reset forgets every identifier (start of a case).
func Reset() {
	for k := range table {
		delete(table, k)
	}
	Draws, Extremes = 0, 0
}

var extremes = []uint32{0, 1, 2, 0x7FFFFFFF, 0x7FFFFFFE, 0x40000000, 0x3FFFFFFF, 0xFFFF, 0x10000, 0x7FFF0000, 0x55555555, 0x2AAAAAAA}

// BKDRHash has the signature and the range of hashz.BKDRHash.
func BKDRHash[T ~string | ~[]byte](s T) uint32 {
	k := string(s)
	if v, ok := table[k]; ok {
		return v
	}
	Draws++
	var v uint32
	if core.EnvN(100) < 30 {
		v = extremes[core.EnvN(len(extremes))]
		Extremes++
	} else {
		v = uint32(core.EnvU64()) & 0x7FFFFFFF
	}
	table[k] = v
	return v
}
