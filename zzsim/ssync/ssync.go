// Package ssync has the API of sync.  Lock operations are scheduling points; admission is
// decided by the simulator's lock model (core.LockModel) and the REAL lock is then taken, which
// by construction never blocks, so the race detector sees golib's real lock edges.
package ssync

import (
	"sync"

	"github.com/welllog/golib/zzsim/core"
)

type (
	WaitGroup = sync.WaitGroup
	Pool      = core.Pool
	Map       = sync.Map
	Locker    = sync.Locker
)

// ErrHeld is the panic value when a lock is requested outside a simulation (the harness's
// single-threaded inspection after a run) and is still held: some operation returned without
// unlocking.  Blocking there would hang the check instead of reporting it.
var ErrHeld = errHeld{}

type errHeld struct{}

func (errHeld) LockHeld() {}

func (errHeld) Error() string {
	return "ssync: lock still held although no simulated thread is running (a Lock without Unlock)"
}

// Once is a model of sync.Once over the simulated Mutex: the function may contain scheduling
// points, and a thread parked at one inside the real Once would hold its real mutex, on which a
// second caller would block for real (the simulator would hang).  The happens-before edge (the
// function's return before any Do's return) comes from the mutex.  As with the real one, a Do
// whose function panics counts as done.
type Once struct {
	m    Mutex
	done bool
}

func (o *Once) Do(f func()) {
	o.m.Lock()
	defer o.m.Unlock()
	if !o.done {
		defer func() { o.done = true }()
		f()
	}
}

type Mutex struct {
	mu sync.Mutex
	m  core.LockModel
}

func (x *Mutex) Lock() {
	if !core.Active() {
		if !x.mu.TryLock() {
			panic(ErrHeld)
		}
		core.NoteLock()
		return
	}
	x.hook()
	core.YieldLock(core.KLock, &x.m)
	x.mu.Lock()
}

// (simulated threads run one at a time; their hand-off is invisible to the race detector)
//
//go:norace
func (x *Mutex) hook() {
	if x.m.Rel == nil {
		x.m.Rel = func(bool) { x.mu.Unlock() }
	}
}

func (x *Mutex) Unlock() {
	core.YieldLock(core.KUnlock, &x.m)
	x.mu.Unlock()
}

func (x *Mutex) TryLock() bool {
	if core.Foreign() {
		return x.mu.TryLock()
	}
	x.hook()
	core.YieldLock(core.KTryLock, &x.m)
	if !core.Active() {
		return x.mu.TryLock()
	}
	if core.TryAcquire(&x.m, true) {
		x.mu.Lock()
		core.Res(false, true, 1)
		return true
	}
	core.Res(false, false, 0)
	return false
}

type RWMutex struct {
	mu sync.RWMutex
	m  core.LockModel
}

func (x *RWMutex) Lock() {
	if !core.Active() {
		if !x.mu.TryLock() {
			panic(ErrHeld)
		}
		core.NoteLock()
		return
	}
	x.hook()
	core.YieldLock(core.KLock, &x.m)
	x.mu.Lock()
}

//go:norace
func (x *RWMutex) hook() {
	if x.m.Rel == nil {
		x.m.Rel = func(write bool) {
			if write {
				x.mu.Unlock()
			} else {
				x.mu.RUnlock()
			}
		}
	}
}

func (x *RWMutex) Unlock() {
	core.YieldLock(core.KUnlock, &x.m)
	x.mu.Unlock()
}

func (x *RWMutex) RLock() {
	if !core.Active() {
		if !x.mu.TryRLock() {
			panic(ErrHeld)
		}
		core.NoteLock()
		return
	}
	x.hook()
	core.YieldLock(core.KRLock, &x.m)
	x.mu.RLock()
}

func (x *RWMutex) RUnlock() {
	core.YieldLock(core.KRUnlock, &x.m)
	x.mu.RUnlock()
}

func (x *RWMutex) TryLock() bool {
	if core.Foreign() {
		return x.mu.TryLock()
	}
	x.hook()
	core.YieldLock(core.KTryLock, &x.m)
	if !core.Active() {
		return x.mu.TryLock()
	}
	if core.TryAcquire(&x.m, true) {
		x.mu.Lock()
		core.Res(false, true, 1)
		return true
	}
	core.Res(false, false, 0)
	return false
}

func (x *RWMutex) TryRLock() bool {
	if core.Foreign() {
		return x.mu.TryRLock()
	}
	x.hook()
	core.YieldLock(core.KTryRLock, &x.m)
	if !core.Active() {
		return x.mu.TryRLock()
	}
	if core.TryAcquire(&x.m, false) {
		x.mu.RLock()
		core.Res(false, true, 1)
		return true
	}
	core.Res(false, false, 0)
	return false
}

type rlocker RWMutex

func (r *rlocker) Lock()   { (*RWMutex)(r).RLock() }
func (r *rlocker) Unlock() { (*RWMutex)(r).RUnlock() }

func (x *RWMutex) RLocker() Locker { return (*rlocker)(x) }

// Cond is the real sync.Cond; NewCond accepts the shim lockers.  A goroutine blocked in
// Cond.Wait is invisible to the simulator (the per-run watchdog turns that into exit 2).
type Cond = sync.Cond

func NewCond(l Locker) *Cond { return sync.NewCond(l) }

func OnceFunc(f func()) func() {
	g := OnceValue(func() struct{} { f(); return struct{}{} })
	return func() { g() }
}

// OnceValue and OnceValues as in sync (go 1.21), over the modelled Once.
func OnceValue[T any](f func() T) func() T {
	var o Once
	var v T
	var p any
	ok := false
	return func() T {
		o.Do(func() {
			defer func() {
				if !ok {
					p = recover()
					panic(p)
				}
			}()
			v = f()
			ok = true
		})
		if !ok {
			panic(p)
		}
		return v
	}
}

func OnceValues[T1, T2 any](f func() (T1, T2)) func() (T1, T2) {
	type pair struct {
		a T1
		b T2
	}
	g := OnceValue(func() pair { a, b := f(); return pair{a, b} })
	return func() (T1, T2) { p := g(); return p.a, p.b }
}
