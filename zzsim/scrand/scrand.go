// Package scrand has the API of crypto/rand that golib uses, with the entropy source owned by
// the simulator: Reader hands out seeded bytes, extreme bytes, short reads and errors
// according to a plan the harness sets before each run.
package scrand

import (
	crand "crypto/rand"
	"errors"
	"io"
	"math/big"

	"github.com/welllog/golib/zzsim/core"
)

var ErrSim = errors.New("simulated entropy failure")

// Plan of the simulated entropy source.
var (
	Mode     int  // 0: seeded bytes (environment PRNG), 1: all 0x00, 2: all 0xFF, 3: 0x01 0x02 0x03 ...
	MaxChunk int  // >0: short reads of at most MaxChunk bytes
	FailAt   int  // >0: the FailAt-th Read call fails (1-based)
	FailOn   bool // every call from FailAt on fails
	Calls    int
	Errors   int
	Trace    []byte // every byte handed out, in order
)

func Reset() {
	Mode, MaxChunk, FailAt, FailOn, Calls, Errors, Trace = 0, 0, 0, false, 0, 0, nil
}

// SetFailing makes every Read fail from now on (true) or none (false); for callers that are
// simulated threads (see Read).
//
//go:norace
func SetFailing(on bool) {
	if on {
		Calls, FailAt, FailOn = 0, 1, true
	} else {
		FailAt, FailOn = 0, false
	}
}

type simReader struct{}

// (not instrumented for the race detector: in the companion worker of the sequential checks
// several simulated threads, which run one at a time, draw from this one source)
//
//go:norace
func (simReader) Read(p []byte) (int, error) {
	Calls++
	core.Hit(core.PEntropyRead)
	if FailAt > 0 && (Calls == FailAt || (FailOn && Calls > FailAt)) {
		Errors++
		core.Hit(core.PEntropyErr)
		return 0, ErrSim
	}
	n := len(p)
	if MaxChunk > 0 && n > MaxChunk {
		n = MaxChunk
	}
	for i := 0; i < n; i++ {
		switch Mode {
		case 1:
			p[i] = 0
		case 2:
			p[i] = 0xFF
		case 3:
			p[i] = byte(len(Trace) + i + 1)
		default:
			p[i] = byte(core.EnvU64())
		}
	}
	// (element by element: the runtime's slice copy and growth report to the race detector
	// whatever this function is marked)
	if len(Trace)+n > cap(Trace) {
		nt := make([]byte, len(Trace), 2*cap(Trace)+n+64)
		for i := range Trace {
			nt[i] = Trace[i]
		}
		Trace = nt
	}
	for i := 0; i < n; i++ {
		Trace = Trace[:len(Trace)+1]
		Trace[len(Trace)-1] = p[i]
	}
	return n, nil
}

var Reader io.Reader = simReader{}

func Read(b []byte) (int, error) { return io.ReadFull(Reader, b) }

func Int(r io.Reader, max *big.Int) (*big.Int, error) { return crand.Int(r, max) }

func Prime(r io.Reader, bits int) (*big.Int, error) { return crand.Prime(r, bits) }
