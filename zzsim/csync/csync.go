// Package csync has the API of sync for Engine C (one thread, no scheduler).  A Lock that finds
// the lock held can only be a lock that an earlier call forgot to release (or a call locking
// twice): it panics instead of hanging the check - unless the code under test has started
// goroutines of its own (internal parallelism, a background worker): then the lock may simply be
// busy, and Lock waits for it (for at most two seconds of real time, then it panics all the
// same).  Pool is the deterministic pool of core.
package csync

import (
	"runtime"
	"sync"
	"time"

	"github.com/welllog/golib/zzsim/core"
)

type (
	WaitGroup = sync.WaitGroup
	Once      = sync.Once
	Pool      = core.Pool
	Map       = sync.Map
	Locker    = sync.Locker
	Cond      = sync.Cond
)

func NewCond(l Locker) *Cond                                   { return sync.NewCond(l) }
func OnceFunc(f func()) func()                                 { return sync.OnceFunc(f) }
func OnceValue[T any](f func() T) func() T                     { return sync.OnceValue(f) }
func OnceValues[T1, T2 any](f func() (T1, T2)) func() (T1, T2) { return sync.OnceValues(f) }

type errHeld struct{}

func (errHeld) Error() string {
	return "csync: lock requested while it is held, in a single-threaded run (a Lock without Unlock, or a second Lock)"
}

var ErrHeld = errHeld{}

// acquire: try once; if the lock is held and no goroutine beyond those that existed when the run
// began is alive, that is a leaked lock; otherwise wait for the holder.
func acquire(try func() bool) {
	if try() {
		return
	}
	if runtime.NumGoroutine() <= core.BaseGoroutines {
		panic(ErrHeld)
	}
	deadline := time.Now().Add(2 * time.Second)
	for !try() {
		if time.Now().After(deadline) {
			panic(ErrHeld)
		}
		runtime.Gosched()
	}
}

type Mutex struct{ m sync.Mutex }

func (x *Mutex) Lock()         { acquire(x.m.TryLock) }
func (x *Mutex) Unlock()       { x.m.Unlock() }
func (x *Mutex) TryLock() bool { return x.m.TryLock() }

type RWMutex struct{ m sync.RWMutex }

func (x *RWMutex) Lock()           { acquire(x.m.TryLock) }
func (x *RWMutex) Unlock()         { x.m.Unlock() }
func (x *RWMutex) RLock()          { acquire(x.m.TryRLock) }
func (x *RWMutex) RUnlock()        { x.m.RUnlock() }
func (x *RWMutex) TryLock() bool   { return x.m.TryLock() }
func (x *RWMutex) TryRLock() bool  { return x.m.TryRLock() }
func (x *RWMutex) RLocker() Locker { return x.m.RLocker() }
