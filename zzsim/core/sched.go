// Package core is the deterministic scheduler ("Engine A") and the owner of every seam the
// simulated golib packages see: who runs next, the clock, spinning, lock admission.
//
// Simulated threads are real goroutines.  Exactly one of {controller, thread 0..n-1} runs at a
// time; control is handed over through the plain word Sim.turn, read and written only inside
// //go:norace functions and waited for with runtime.Gosched().  Nothing in the hand-off is
// visible to the race detector, so it creates no happens-before edge between simulated
// threads: the detector judges golib's own synchronisation only.
//
// Rules for this file: every function that touches S is //go:norace, uses no maps, no
// channels, no closures, no sync primitives.
package core

import (
	"fmt"
	"runtime"
	"runtime/debug"
	"sync"
	"unsafe"
)

// joinWG gives the controller a real happens-before edge from every simulated thread's end to
// the code that runs after Run returns (the oracle reads what the threads recorded).  It is
// outside the verdict-relevant part of the run.
var joinWG sync.WaitGroup

type Kind uint8

const (
	KNone Kind = iota
	KStart
	KInvoke
	KLoad
	KStore
	KCas
	KAdd
	KSwap
	KLock
	KRLock
	KUnlock
	KRUnlock
	KTryLock
	KTryRLock
	KGosched
	KTimerRecv
	KSleep
	KWgWait
	KSelect
	KDone
)

var kindNames = [...]string{"none", "start", "invoke", "load", "store", "cas", "add", "swap", "lock", "rlock",
	"unlock", "runlock", "trylock", "tryrlock", "gosched", "timer", "sleep", "wgwait", "select", "done"}

func (k Kind) String() string { return kindNames[k] }

const Ctl = int32(-1)

// SchedFreeze is the schedule entry "freeze all workers now and start the probe".
const SchedFreeze = int16(-1000)

const MaxThreads = 16

// LockModel is the simulator's view of one mutex / rwmutex.
type LockModel struct {
	Writer  int32 // thread id + 1, 0 = free
	Readers int32
	// Rel really unlocks the lock behind the model (write or read side); set by the shim.  Used
	// when a run is over and an ended thread still holds the lock (see Run).
	Rel func(write bool)
}

type heldLock struct {
	m     *LockModel
	write bool
}

// Timer is a simulated ticker or one-shot timer.
type Timer struct {
	next     int64
	period   int64 // 0 = one shot
	buffered bool
	bufTime  int64
	active   bool
	armed    bool // will still fire (a one-shot timer is disarmed once it has fired)
}

const (
	stNone = iota
	stHeld // created, not yet allowed to run (probe before the freeze)
	stParked
	stFrozen
	stDone
)

type thread struct {
	state     int
	pend      Kind
	addr      uintptr
	lock      *LockModel
	timer     *Timer
	timers    []*Timer // simulated select: ready when any has a buffered tick
	selDef    bool     // ... or when the select has a default clause
	selIdx    int
	wake      int64
	spinEpoch uint64
	goid      uint64 // of the goroutine that runs this thread
	selfW     uint64 // write-epoch steps caused by this thread itself
	burn      int
	writes    int
	held      int // locks of the code under test this thread holds (lock model)
	locks     [6]heldLock
	nlocks    int
	killSteps int // scheduling points passed after the run was over (see killYield)
	exiting   bool
	bounded   bool // the operation in progress must finish by itself (not a wait-forever call)
	resWrite  bool
	resOK     bool
	resVal    uint64
	resPtr    bool
	hasRes    bool
	inOp      bool
	steps     int
	panicMsg  string
	panicStk  string
}

// Policies.
const (
	PolUniform = iota
	PolSticky
	PolPCT
	PolScript
	// PolLockstep: the threads take turns in a fixed order, thread t for Quanta[t] steps at a
	// time: periodic interleavings (one thread losing the same race again and again against
	// another that completes an operation per turn), which random choice all but never produces
	PolLockstep
)

type Stall struct {
	T   int `json:"t"`
	At  int `json:"at"`
	For int `json:"for"`
	// AfterW > 0: the stall starts right after the thread's AfterW-th write (successful CAS,
	// store, add, unlock) instead of at step At: preempted in the middle of a multi-write update
	AfterW int `json:"after_w,omitempty"`
	// AfterS > 0: the stall starts right after the thread's own AfterS-th step of any kind
	// (descheduled between two loads of one read-only operation)
	AfterS int `json:"after_s,omitempty"`
}

type Config struct {
	Seed         uint64  `json:"seed"`
	Policy       int     `json:"policy"`
	StickyPct    int     `json:"sticky_pct,omitempty"`
	PCTDepth     int     `json:"pct_depth,omitempty"`
	PCTLen       int     `json:"pct_len,omitempty"`
	Quanta       []int   `json:"quanta,omitempty"`
	Stalls       []Stall `json:"stalls,omitempty"`
	FreezeAt     int     `json:"freeze_at"` // -1: never; the probe then starts when all workers are done
	Probe        int     `json:"probe"`     // thread id of the probe, -1: none
	TickPct      int     `json:"tick_pct,omitempty"`
	ClockJumpPct int     `json:"clock_jump_pct,omitempty"` // chance that a clock read finds the clock moved on by milliseconds to seconds (the process was descheduled, the clock was stepped)
	SpinBurn     int     `json:"spin_burn,omitempty"`      // a spinner may retry this many times without any progress by others
	MaxSteps     int     `json:"max_steps"`
	Script       []int16 `json:"-"`
	Strict       bool    `json:"-"`
	KeepLog      bool    `json:"-"`
}

// How a run ended.
const (
	EndComplete  = iota // every thread ran to completion
	EndFrozen           // workers frozen, probe completed
	EndStuckSpin        // only spinning threads remain and fair retries made no progress
	EndDeadlock         // unfinished threads, none can ever be enabled
	EndBudget           // step budget exhausted
	EndDiverged         // strict replay: script entry not enabled / script too short or too long
)

// SimCPUs is the processor count of the simulated machine (0 = the real one), see SetSimCPUs.
var SimCPUs int

// SetSimCPUs derives the simulated processor count of a worker process from the master seed and
// the worker index; a replay derives the same value from the case's process reference.
func SetSimCPUs(seed uint64, worker int) {
	SimCPUs = [...]int{4, 1, 8, 2, 16, 3, 64, 100}[(seed*31+uint64(worker))%8]
}

var EndNames = [...]string{"complete", "frozen", "stuck_spin", "deadlock", "budget", "diverged"}

type Event struct {
	Seq  uint64
	T    int16
	Kind Kind
	Sym  int16
	OK   bool
	Val  uint64
}

type Result struct {
	End           int
	Steps         int
	Schedule      []int16
	LogHash       uint64
	Log           []Event
	Unfinished    []int
	Pending       []Kind // pending kind of each unfinished thread
	Preemptions   int    // switched away from an enabled thread that was inside an operation
	MaxOpen       int    // max number of simultaneously open operations
	StallsFired   int
	Ticks         int
	FairRounds    int
	Burns         int
	ClockJumps    int // clock reads that found the clock moved on
	ForcedUnlocks int // locks released on behalf of threads that ended holding them
	BoundedRounds int // retry rounds granted to self-terminating calls after the others gave up
	Froze         bool
	SimNs         int64
	Panics        []string // "t<id>: msg\nstack"
	KindCount     [KDone + 1]int
}

type Sim struct {
	active    bool
	kill      bool
	turn      int32
	cur       int32
	n         int
	th        [MaxThreads]thread
	seq       uint64
	wEpoch    uint64
	baseG     int // goroutines alive once the threads of this run exist: more means the code under test started some
	clock     int64
	timers    []*Timer
	rng       uint64
	cfg       Config
	addrs     []uintptr
	hash      uint64
	log       []Event
	open      int
	res       Result
	prio      [MaxThreads]int
	pctAt     []int
	burner    int
	nowReads  uint64
	stallFrom []int
}

var S Sim

// Active reports whether the calling code runs inside a simulation as a simulated thread.
//
//go:norace
func Active() bool { return S.active && !S.kill }

// Foreign: a simulation is running and the caller is NOT one of its threads but a goroutine the
// code under test started itself (internal parallelism, a background worker).  Such a goroutine
// is not scheduled by the simulator: for it every shim is the plain operation.  The test costs a
// goroutine count when there are no such goroutines and a stack header parse when there are.
//
//go:norace
func Foreign() bool { return S.active && S.foreign() }

//go:norace
func (s *Sim) foreign() bool {
	if runtime.NumGoroutine() <= s.baseG {
		return false
	}
	id := goid()
	for t := 0; t < s.n; t++ {
		if s.th[t].goid == id {
			return false
		}
	}
	return true
}

// goid parses the goroutine id out of the stack header ("goroutine 123 [running]:").
//
//go:norace
func goid() uint64 {
	var buf [40]byte
	n := runtime.Stack(buf[:], false)
	var id uint64
	for i := len("goroutine "); i < n && buf[i] >= '0' && buf[i] <= '9'; i++ {
		id = id*10 + uint64(buf[i]-'0')
	}
	return id
}

// Cur returns the id of the running simulated thread.
//
//go:norace
func Cur() int { return int(S.cur) }

//go:norace
func (s *Sim) rand() uint64 {
	s.rng += 0x9E3779B97F4A7C15
	z := s.rng
	z = (z ^ (z >> 30)) * 0xBF58476D1CE4E5B9
	z = (z ^ (z >> 27)) * 0x94D049BB133111EB
	return z ^ (z >> 31)
}

//go:norace
func (s *Sim) randn(n int) int {
	if n <= 1 {
		return 0
	}
	return int(s.rand() % uint64(n))
}

//go:norace
func (s *Sim) sym(a uintptr) int16 {
	if a == 0 {
		return -1
	}
	for i, x := range s.addrs {
		if x == a {
			return int16(i)
		}
	}
	s.addrs = append(s.addrs, a)
	return int16(len(s.addrs) - 1)
}

//go:norace
func (s *Sim) mix(v uint64) {
	h := s.hash
	for i := 0; i < 8; i++ {
		h ^= v & 0xff
		h *= 1099511628211
		v >>= 8
	}
	s.hash = h
}

//go:norace
func (s *Sim) event(t int, k Kind, sym int16, ok bool, val uint64) {
	s.seq++
	s.mix(uint64(t)<<32 | uint64(k)<<16 | uint64(uint16(sym)))
	b := uint64(0)
	if ok {
		b = 1
	}
	s.mix(val<<1 | b)
	s.res.KindCount[k]++
	if s.cfg.KeepLog {
		s.log = append(s.log, Event{Seq: s.seq, T: int16(t), Kind: k, Sym: sym, OK: ok, Val: val})
	}
}

// ---------------------------------------------------------------------------------------
// thread side

//go:norace
func waitTurn(t int32) {
	s := &S
	for s.turn != t {
		runtime.Gosched()
	}
	if s.kill {
		th := &s.th[t]
		if th.held > 0 && th.killSteps < killStepLimit && !th.exiting && th.pend != KLock && th.pend != KRLock {
			// The run is over, but this thread is inside a critical section of the code
			// under test.  An instance-level lock would not matter (the instance is dropped),
			// a package-level one would stay locked for every later run of this process: the
			// thread runs on, unsimulated, until it has released what it holds (unless it is
			// parked in front of another lock acquisition, which would block for real).
			th.killSteps++
			killApply(th, th.pend, th.lock)
			return
		}
		th.exiting = true
		runtime.Goexit()
	}
}

const killStepLimit = 200

//go:norace
func (th *thread) noteHeld(m *LockModel, write bool) {
	th.held++
	if th.nlocks < len(th.locks) {
		th.locks[th.nlocks] = heldLock{m, write}
		th.nlocks++
	}
}

//go:norace
func (th *thread) noteReleased(m *LockModel, write bool) {
	if th.held > 0 {
		th.held--
	}
	for i := th.nlocks - 1; i >= 0; i-- {
		if th.locks[i].m == m && th.locks[i].write == write {
			for j := i + 1; j < th.nlocks; j++ { // not copy(): the runtime's slice copy reports to the race detector
				th.locks[j-1] = th.locks[j]
			}
			th.nlocks--
			return
		}
	}
}

//go:norace
func killApply(th *thread, k Kind, m *LockModel) {
	switch k {
	case KUnlock:
		if m != nil {
			m.Writer = 0
		}
		th.noteReleased(m, true)
	case KRUnlock:
		if m != nil && m.Readers > 0 {
			m.Readers--
		}
		th.noteReleased(m, false)
	}
}

// killYield is a scheduling point reached after the run was over (by a thread that still held
// a lock, or by deferred calls of a thread that is exiting).
//
//go:norace
func killYield(k Kind, m *LockModel) {
	s := &S
	if s.cur < 0 || int(s.cur) >= s.n {
		return
	}
	th := &s.th[s.cur]
	if th.exiting {
		killApply(th, k, m)
		return
	}
	if th.held == 0 || th.killSteps >= killStepLimit {
		th.exiting = true
		runtime.Goexit()
	}
	th.killSteps++
	killApply(th, k, m)
}

// NoteLock: a lock shim acquired a lock outside the model (after the run was over).
//
//go:norace
func NoteLock() {
	s := &S
	if s.active && s.kill && s.cur >= 0 && int(s.cur) < s.n {
		s.th[s.cur].held++
	}
}

// Yield parks the calling simulated thread before an operation of the given kind and returns
// when the controller schedules it.  Outside a simulation it returns at once.
//
//go:norace
func Yield(k Kind, addr unsafe.Pointer) {
	s := &S
	if !s.active || s.foreign() {
		return
	}
	if s.kill {
		killYield(k, nil)
		return
	}
	t := s.cur
	th := &s.th[t]
	th.pend = k
	th.addr = uintptr(addr)
	s.turn = Ctl
	waitTurn(t)
}

//go:norace
func YieldLock(k Kind, m *LockModel) {
	s := &S
	if !s.active || s.foreign() {
		return
	}
	if s.kill {
		killYield(k, m)
		return
	}
	t := s.cur
	th := &s.th[t]
	th.pend = k
	th.addr = uintptr(unsafe.Pointer(m))
	th.lock = m
	s.turn = Ctl
	waitTurn(t)
}

//go:norace
func YieldTimer(tm *Timer) (int64, bool) {
	s := &S
	if s.active && s.kill && !s.foreign() {
		killYield(KTimerRecv, nil)
	}
	if !s.active || s.kill || s.foreign() {
		return s.clock, false
	}
	t := s.cur
	th := &s.th[t]
	th.pend = KTimerRecv
	th.addr = uintptr(unsafe.Pointer(tm))
	th.timer = tm
	s.turn = Ctl
	waitTurn(t)
	// scheduled only when a tick is buffered
	tm.buffered = false
	if tm.period == 0 {
		tm.active = false
	}
	th.hasRes = true
	th.resVal = uint64(tm.bufTime)
	return tm.bufTime, true
}

type chanReg struct {
	ch uintptr
	tm *Timer
}

// chanRegs maps the real channel values the time shim hands out (ticker.C, time.After) to
// their simulated timers.
var chanRegs []chanReg

//go:norace
func RegisterChan(ch unsafe.Pointer, tm *Timer) {
	if len(chanRegs) > 4096 {
		chanRegs = chanRegs[:0]
	}
	chanRegs = append(chanRegs, chanReg{uintptr(ch), tm})
}

//go:norace
func LookupChan(ch unsafe.Pointer) *Timer {
	for i := len(chanRegs) - 1; i >= 0; i-- {
		if chanRegs[i].ch == uintptr(ch) {
			return chanRegs[i].tm
		}
	}
	return nil
}

// YieldSelect parks the thread in a simulated select over timers; it returns the index of
// the timer whose tick was taken (chosen by the environment PRNG among the ready ones, as
// Go's select does), or -1 for the default clause.
//
//go:norace
func YieldSelect(tms []*Timer, hasDefault bool) (int, int64) {
	s := &S
	if !s.active || s.kill || s.foreign() {
		return -1, s.clock
	}
	t := s.cur
	th := &s.th[t]
	th.pend = KSelect
	th.addr = 0
	th.timers = tms
	th.selDef = hasDefault
	s.turn = Ctl
	waitTurn(t)
	var ready [8]int
	n := 0
	for i, tm := range tms {
		if tm != nil && tm.buffered && n < len(ready) {
			ready[n] = i
			n++
		}
	}
	th.timers = nil
	if n == 0 {
		return -1, s.clock
	}
	i := ready[EnvN(n)]
	tm := tms[i]
	tm.buffered = false
	if tm.period == 0 {
		tm.active = false
	}
	th.hasRes = true
	th.resVal = uint64(i)
	return i, tm.bufTime
}

//go:norace
func YieldSleep(d int64) {
	s := &S
	if !s.active || s.kill || s.foreign() {
		return
	}
	t := s.cur
	th := &s.th[t]
	th.pend = KSleep
	th.addr = 0
	th.wake = s.clock + d
	s.turn = Ctl
	waitTurn(t)
}

// Res records the outcome of the operation the thread has just performed.
//
//go:norace
func Res(write, ok bool, val uint64) {
	s := &S
	if !s.active || s.kill || s.foreign() {
		return
	}
	th := &s.th[s.cur]
	th.hasRes = true
	th.resWrite = write
	th.resOK = ok
	th.resVal = val
	th.resPtr = false
}

//go:norace
func ResPtr(write, ok bool, p unsafe.Pointer) {
	s := &S
	if !s.active || s.kill || s.foreign() {
		return
	}
	th := &s.th[s.cur]
	th.hasRes = true
	th.resWrite = write
	th.resOK = ok
	th.resVal = uint64(uintptr(p))
	th.resPtr = true
}

// TryAcquire is used by TryLock/TryRLock shims: decides from the model, in thread context.
//
//go:norace
func TryAcquire(m *LockModel, write bool) bool {
	s := &S
	if !s.active || s.kill || s.foreign() {
		return true
	}
	if write {
		if m.Writer == 0 && m.Readers == 0 {
			m.Writer = s.cur + 1
			s.th[s.cur].noteHeld(m, true)
			return true
		}
		return false
	}
	if m.Writer == 0 {
		m.Readers++
		s.th[s.cur].noteHeld(m, false)
		return true
	}
	return false
}

// OpBegin is called by the harness before it invokes an operation: it is a scheduling point
// (so the scheduler decides which operations overlap) and returns the invocation stamp.
//
//go:norace
func OpBegin() uint64 {
	s := &S
	if !s.active || s.kill || s.foreign() {
		s.seq++
		return s.seq
	}
	t := s.cur
	th := &s.th[t]
	th.pend = KInvoke
	th.addr = 0
	s.turn = Ctl
	waitTurn(t)
	th.inOp = true
	s.open++
	if s.open > s.res.MaxOpen {
		s.res.MaxOpen = s.open
	}
	s.seq++
	return s.seq
}

// OpBounded marks the operation the calling thread has begun as one that must finish by itself
// (see the stuck-spin handling of the controller).
//
//go:norace
func OpBounded() {
	s := &S
	if !s.active || s.kill || s.foreign() {
		return
	}
	s.th[s.cur].bounded = true
}

// OpEnd returns the response stamp.
//
//go:norace
func OpEnd() uint64 {
	s := &S
	s.seq++
	if s.active && !s.kill && !s.foreign() {
		th := &s.th[s.cur]
		th.inOp = false
		th.bounded = false
		s.open--
	}
	return s.seq
}

// ClockRead is a clock read of a simulated thread: a scheduling point, after which the clock may
// be found to have jumped (a decision derived from the run seed and the number of the read, so
// that a replay sees the same jumps).
//
//go:norace
func ClockRead() int64 {
	Yield(KLoad, nil)
	s := &S
	if s.active && !s.kill && s.cfg.ClockJumpPct > 0 && !s.foreign() {
		s.nowReads++
		h := poolMix(s.cfg.Seed^0xc10c, s.nowReads)
		if int(h%100) < s.cfg.ClockJumpPct {
			j := []int64{1e6, 1e7, 1e8, 1e9, 3e9, 15e8}[(h>>8)%6]
			s.advance(s.clock + j)
			s.res.ClockJumps++
		}
	}
	return s.clock
}

// Now returns the simulated clock in nanoseconds.
//
//go:norace
func Now() int64 { return S.clock }

//go:norace
func NewTimer(d, period int64) *Timer {
	s := &S
	if d <= 0 {
		d = 1
	}
	tm := &Timer{next: s.clock + d, period: period, active: true, armed: true}
	if s.active {
		s.timers = append(s.timers, tm)
	}
	return tm
}

//go:norace
func (tm *Timer) Stop() {
	tm.active = false
	if Timers123 {
		tm.buffered = false
	}
}

// Timers123: the module under test declares go 1.23 or later, so its timers have the semantics of
// that release: after Stop or Reset no value prepared before the call can be received.  (Set by
// a file the rewriter generates from the go directive of the tree under test; under the older
// semantics a stale value MAY still be delivered, which is what the model then allows.)
var Timers123 bool

//go:norace
func (tm *Timer) Reset(d int64) {
	if d <= 0 {
		d = 1
	}
	tm.next = S.clock + d
	if tm.period != 0 {
		tm.period = d
	}
	tm.active = true
	tm.armed = true
	if Timers123 {
		tm.buffered = false
	}
}

func threadMain(t int, body func(int)) {
	defer threadExit(t)
	setGoid(t)
	waitTurn(int32(t))
	body(t)
}

func threadExit(t int) {
	if r := recover(); r != nil {
		_, lockHeld := r.(interface{ LockHeld() })
		if !(lockHeld && killing()) {
			// (a thread that ran on after the end of the run and met a lock another ended
			// thread still holds is not a finding)
			setPanic(t, fmt.Sprint(r), string(debug.Stack()))
		}
	}
	joinWG.Done()
	threadDone(t)
}

//go:norace
func setGoid(t int) { S.th[t].goid = goid() }

//go:norace
func killing() bool { return S.kill }

//go:norace
func setPanic(t int, msg, stk string) {
	S.th[t].panicMsg = msg
	S.th[t].panicStk = stk
}

//go:norace
func threadDone(t int) {
	s := &S
	th := &s.th[t]
	if th.inOp {
		th.inOp = false
		s.open--
	}
	th.state = stDone
	th.pend = KDone
	s.turn = Ctl
}

// ---------------------------------------------------------------------------------------
// controller side

//go:norace
func (s *Sim) stalled(t, step int) bool {
	for i := range s.cfg.Stalls {
		st := &s.cfg.Stalls[i]
		at := st.At
		if st.AfterS > 0 && st.T == t {
			if s.th[t].steps < st.AfterS {
				continue
			}
			if s.stallFrom[i] == 0 {
				s.stallFrom[i] = step + 1
			}
			at = s.stallFrom[i] - 1
		} else if st.AfterW > 0 && st.T == t {
			if s.th[t].writes < st.AfterW {
				continue
			}
			if s.stallFrom[i] == 0 {
				s.stallFrom[i] = step + 1
			}
			at = s.stallFrom[i] - 1
		}
		if st.T == t && step >= at && (step < at+st.For || (st.For < 0 && s.res.Burns < s.cfg.SpinBurn)) {
			// For < 0: descheduled for as long as the run's spin budget lasts, i.e. while
			// a peer can still burn attempts waiting for this thread
			return true
		}
	}
	return false
}

// canRunIn: t is among the enabled (and not stalled) threads of this step.
//
//go:norace
func (s *Sim) canRunIn(t int, en []int) bool {
	for _, e := range en {
		if e == t {
			return true
		}
	}
	return false
}

//go:norace
func (s *Sim) canRun(t int) bool {
	th := &s.th[t]
	if th.state != stParked {
		return false
	}
	switch th.pend {
	case KLock:
		return th.lock.Writer == 0 && th.lock.Readers == 0
	case KRLock:
		return th.lock.Writer == 0
	case KGosched:
		// burning: ONE thread per run (the first that spins without progress) may retry up to
		// SpinBurn times although nothing changed; everybody else waits for progress
		return th.spinEpoch != s.wEpoch-th.selfW || (s.res.Burns < s.cfg.SpinBurn && (s.burner < 0 || s.burner == t))
	case KTimerRecv:
		return th.timer.buffered
	case KSleep:
		return s.clock >= th.wake
	case KSelect:
		if th.selDef {
			return true
		}
		for _, tm := range th.timers {
			if tm.buffered {
				return true
			}
		}
		return false
	}
	return true
}

// nextDeadline returns the earliest pending timer or sleep deadline, or -1.
//
//go:norace
func (s *Sim) nextDeadline() int64 {
	best := int64(-1)
	for _, tm := range s.timers {
		if tm.active && tm.armed && (best < 0 || tm.next < best) {
			best = tm.next
		}
	}
	for t := 0; t < s.n; t++ {
		th := &s.th[t]
		if th.state == stParked && th.pend == KSleep && th.wake > s.clock && (best < 0 || th.wake < best) {
			best = th.wake
		}
	}
	return best
}

//go:norace
func (s *Sim) advance(to int64) {
	if to > s.clock {
		s.clock = to
	}
	for _, tm := range s.timers {
		for tm.active && tm.armed && tm.next <= s.clock {
			if !tm.buffered {
				tm.buffered = true
				tm.bufTime = tm.next
			}
			if tm.period == 0 {
				tm.armed = false
				break
			}
			tm.next += tm.period
		}
	}
	s.wEpoch++
	s.res.Ticks++
	s.event(-1, KSleep, -1, true, uint64(s.clock))
}

//go:norace
func (s *Sim) dispatch(t int) {
	th := &s.th[t]
	k := th.pend
	switch k {
	case KLock:
		th.lock.Writer = int32(t) + 1
		th.noteHeld(th.lock, true)
	case KRLock:
		th.lock.Readers++
		th.noteHeld(th.lock, false)
	case KUnlock:
		th.lock.Writer = 0
		th.noteReleased(th.lock, true)
	case KRUnlock:
		if th.lock.Readers > 0 {
			th.lock.Readers--
		}
		th.noteReleased(th.lock, false)
	case KGosched:
		// what a spinner waits for is a write by SOMEBODY ELSE (or the clock): its own writes
		// (a failed attempt that bumps a statistics counter, say) show it nothing new, and a
		// thread that re-enabled itself that way would keep the clock from ever advancing
		if th.spinEpoch == s.wEpoch-th.selfW {
			th.burn++     // a retry that cannot observe anything new ("burning" attempts);
			s.res.Burns++ // the budget is per run and never refilled
			s.burner = t
		}
		th.spinEpoch = s.wEpoch - th.selfW
	}
	addr := th.addr
	th.hasRes = false
	th.resWrite = false
	th.resOK = false
	th.resVal = 0
	th.resPtr = false
	th.steps++
	s.cur = int32(t)
	s.turn = int32(t)
	for s.turn != Ctl {
		runtime.Gosched()
	}
	s.cur = Ctl
	// the thread has performed the operation it had announced and is parked again (or done)
	val := th.resVal
	if th.resPtr {
		val = uint64(uint16(s.sym(uintptr(th.resVal))))
	}
	s.event(t, k, s.sym(addr), th.resOK, val)
	if th.resWrite || k == KUnlock || k == KRUnlock {
		s.wEpoch++
		th.selfW++
		th.writes++
	}
}

// Run executes one simulated run with n threads and returns what happened.
// body(t) is the program of thread t; it runs on its own goroutine.
//
//go:norace
func Run(cfg Config, n int, body func(int)) Result {
	s := &S
	if n > MaxThreads {
		panic("core.Run: too many threads")
	}
	*s = Sim{}
	s.cfg = cfg
	s.n = n
	s.rng = cfg.Seed
	s.hash = 14695981039346656037
	s.turn = Ctl
	s.cur = Ctl
	s.burner = -1
	s.stallFrom = make([]int, len(cfg.Stalls))
	chanRegs = chanRegs[:0]
	s.active = true
	for t := 0; t < n; t++ {
		s.th[t].state = stParked
		s.th[t].pend = KStart
		s.th[t].spinEpoch = ^uint64(0)
		if t == cfg.Probe {
			s.th[t].state = stHeld
		}
	}
	if cfg.Policy == PolPCT {
		for t := 0; t < n; t++ {
			s.prio[t] = t + 1000
		}
		for t := n - 1; t > 0; t-- {
			j := s.randn(t + 1)
			s.prio[t], s.prio[j] = s.prio[j], s.prio[t]
		}
		for i := 1; i < cfg.PCTDepth; i++ {
			s.pctAt = append(s.pctAt, 1+s.randn(cfg.PCTLen))
		}
	}
	joinWG.Add(n)
	s.baseG = runtime.NumGoroutine() + n
	for t := 0; t < n; t++ {
		go threadMain(t, body)
	}
	s.loop()
	// end of the verdict-relevant part: terminate whatever is still parked
	s.res.SimNs = s.clock
	s.res.LogHash = s.hash
	s.res.Log = s.log
	for t := 0; t < n; t++ {
		th := &s.th[t]
		if th.state != stDone {
			s.res.Unfinished = append(s.res.Unfinished, t)
			s.res.Pending = append(s.res.Pending, th.pend)
		}
	}
	s.kill = true
	for t := 0; t < n; t++ {
		th := &s.th[t]
		if th.state != stDone {
			s.cur = int32(t)
			s.turn = int32(t)
			for s.turn != Ctl {
				runtime.Gosched()
			}
		}
	}
	joinWG.Wait()
	// An ended thread may still hold a lock (it was blocked for good, or did not get out of its
	// critical section within the limit).  If the lock belongs to the instance it dies with the
	// instance; a package-level lock would stay locked in every later run of this process, so
	// the real lock is released on the dead thread's behalf.
	for _, t := range s.res.Unfinished {
		th := &s.th[t]
		for i := th.nlocks - 1; i >= 0; i-- {
			if hl := th.locks[i]; hl.m != nil && hl.m.Rel != nil {
				if hl.write {
					hl.m.Writer = 0
				} else if hl.m.Readers > 0 {
					hl.m.Readers--
				}
				hl.m.Rel(hl.write)
				s.res.ForcedUnlocks++
			}
		}
		th.nlocks = 0
	}
	for t := 0; t < n; t++ {
		if s.th[t].panicMsg != "" {
			s.res.Panics = append(s.res.Panics, "t"+itoa(t)+": "+s.th[t].panicMsg+"\n"+s.th[t].panicStk)
		}
	}
	s.active = false
	s.kill = false
	s.cur = Ctl
	return s.res
}

//go:norace
func itoa(i int) string {
	if i == 0 {
		return "0"
	}
	neg := i < 0
	if neg {
		i = -i
	}
	var b [20]byte
	p := len(b)
	for i > 0 {
		p--
		b[p] = byte('0' + i%10)
		i /= 10
	}
	if neg {
		p--
		b[p] = '-'
	}
	return string(b[p:])
}

//go:norace
func (s *Sim) loop() {
	cfg := &s.cfg
	last := -1
	roundOpen := false
	idleRounds := 0
	epochAtRound := uint64(0)
	rr, rrTick := 0, 0
	lsCur, lsLeft := s.n-1, 0
	scriptPos := 0
	for step := 0; ; step++ {
	again:
		s.res.Steps = step
		// freeze?
		if cfg.Policy != PolScript && cfg.Probe >= 0 && !s.res.Froze && cfg.FreezeAt >= 0 && step >= cfg.FreezeAt {
			s.freeze()
			s.res.Schedule = append(s.res.Schedule, SchedFreeze)
		}
		if cfg.Policy == PolScript && cfg.Probe >= 0 && !s.res.Froze && scriptPos < len(cfg.Script) && cfg.Script[scriptPos] == SchedFreeze {
			scriptPos++
			s.freeze()
			s.res.Schedule = append(s.res.Schedule, SchedFreeze)
		}
		// all workers done?
		undone := 0
		for t := 0; t < s.n; t++ {
			if s.th[t].state == stParked {
				undone++
			}
		}
		if undone == 0 {
			if cfg.Probe >= 0 && s.th[cfg.Probe].state == stHeld {
				// quiescent probe: workers are all done (or frozen), let the probe run
				s.th[cfg.Probe].state = stParked
				continue
			}
			if s.res.Froze {
				s.res.End = EndFrozen
			} else {
				s.res.End = EndComplete
			}
			if cfg.Policy == PolScript && cfg.Strict && scriptPos != len(cfg.Script) {
				s.res.End = EndDiverged
			}
			return
		}
		if step >= cfg.MaxSteps {
			s.res.End = EndBudget
			return
		}
		// enabled set
		var en [MaxThreads]int
		ne := 0
		var enStalled [MaxThreads]int
		nst := 0
		for t := 0; t < s.n; t++ {
			if s.canRun(t) {
				if cfg.Policy != PolScript && s.stalled(t, step) {
					enStalled[nst] = t
					nst++
				} else {
					en[ne] = t
					ne++
				}
			}
		}
		if ne == 0 && nst > 0 {
			// a stalled thread is the only one that can move: the stall ends early
			copy(en[:], enStalled[:nst])
			ne = nst
			nst = 0
		}
		if nst > 0 {
			for i := 0; i < nst; i++ {
				if s.th[enStalled[i]].inOp {
					s.res.StallsFired++
					break
				}
			}
		}
		dl := s.nextDeadline()
		choice := -100
		if cfg.Policy == PolScript && (ne > 0 || dl >= 0) {
			// scripted replay (only when there is something to choose: fair retry rounds and
			// the stuck/deadlock verdicts below are consequences, not choices)
			for scriptPos < len(cfg.Script) {
				c := int(cfg.Script[scriptPos])
				scriptPos++
				if c == int(SchedFreeze) {
					if cfg.Probe >= 0 && !s.res.Froze {
						s.freeze()
						s.res.Schedule = append(s.res.Schedule, SchedFreeze)
						goto again
					}
					continue
				}
				if c < 0 {
					if dl >= 0 {
						choice = c
						break
					}
				} else if c < s.n && s.canRun(c) {
					choice = c
					break
				}
				if cfg.Strict {
					s.res.End = EndDiverged
					return
				}
			}
			if choice == -100 {
				if cfg.Strict {
					s.res.End = EndDiverged
					return
				}
				// lenient tail: lowest enabled id, else tick, else spinner handling below
				if ne > 0 {
					choice = en[0]
				}
			}
		}
		if choice == -100 && ne == 0 {
			if dl >= 0 {
				choice = -1
			} else {
				// only spinners (or blocked threads) remain
				spinners := 0
				for t := 0; t < s.n; t++ {
					if s.th[t].state == stParked && s.th[t].pend == KGosched {
						spinners++
					}
				}
				if spinners == 0 {
					s.res.End = EndDeadlock
					return
				}
				if roundOpen && epochAtRound == s.wEpoch {
					idleRounds++
				} else {
					idleRounds = 0
				}
				if idleRounds >= 3 {
					// Nobody but spinners is left and three rounds of retries changed nothing.
					// For a call that waits for somebody else for ever that is the end.  A call
					// that must finish by itself (timed or non-blocking) may still be inside a
					// bounded spin (k yields before it sleeps, helps or gives up) or be polling
					// the clock: it keeps retrying while simulated time passes, and is given up
					// only after thousands of fruitless rounds (or the step budget).
					bounded := false
					for t := 0; t < s.n; t++ {
						th := &s.th[t]
						if th.state == stParked && th.pend == KGosched && th.bounded && th.inOp {
							bounded = true
						}
					}
					if !bounded || idleRounds >= 4000 {
						s.res.End = EndStuckSpin
						return
					}
					s.clock += 1000000
					s.res.BoundedRounds++
				}
				roundOpen = true
				epochAtRound = s.wEpoch
				s.res.FairRounds++
				// re-enable every spinner for one retry
				for t := 0; t < s.n; t++ {
					if s.th[t].state == stParked && s.th[t].pend == KGosched {
						s.th[t].spinEpoch = ^uint64(0)
					}
				}
				continue
			}
		}
		if choice == -100 {
			// policy
			if dl >= 0 && cfg.TickPct > 0 && s.randn(100) < cfg.TickPct {
				choice = -1
				if s.randn(4) == 0 {
					choice = -2 - s.randn(25) // late wake-up: deadline + k ms
				}
			} else if rrTick++; step >= cfg.MaxSteps/2 && dl >= 0 && rrTick%(4*s.n+1) == 0 {
				// fairness fallback, the clock's share: time passes even while threads that
				// poll keep each other busy (a timed wait must reach its deadline)
				choice = -1
			} else if step >= cfg.MaxSteps/2 {
				// fairness fallback: round robin
				for i := 0; i < s.n; i++ {
					rr = (rr + 1) % s.n
					if s.canRun(rr) {
						choice = rr
						break
					}
				}
			} else {
				switch cfg.Policy {
				case PolSticky:
					lastEn := false
					for i := 0; i < ne; i++ {
						if en[i] == last {
							lastEn = true
						}
					}
					if lastEn && s.randn(100) < cfg.StickyPct {
						choice = last
					} else {
						choice = en[s.randn(ne)]
					}
				case PolPCT:
					for i := range s.pctAt {
						if s.pctAt[i] == step {
							// lower the priority of the best enabled thread
							b := en[0]
							for j := 1; j < ne; j++ {
								if s.prio[en[j]] > s.prio[b] {
									b = en[j]
								}
							}
							s.prio[b] = -i - 1
						}
					}
					b := en[0]
					for j := 1; j < ne; j++ {
						if s.prio[en[j]] > s.prio[b] {
							b = en[j]
						}
					}
					choice = b
				case PolLockstep:
					if lsLeft > 0 && s.canRunIn(lsCur, en[:ne]) {
						lsLeft--
						choice = lsCur
					} else {
						for i := 1; i <= s.n; i++ {
							t := (lsCur + i) % s.n
							if s.canRunIn(t, en[:ne]) {
								lsCur, choice = t, t
								lsLeft = 0
								if t < len(cfg.Quanta) && cfg.Quanta[t] > 1 {
									lsLeft = cfg.Quanta[t] - 1
								}
								break
							}
						}
						if choice == -100 {
							choice = en[0]
						}
					}
				default:
					choice = en[s.randn(ne)]
				}
			}
		}
		s.res.Schedule = append(s.res.Schedule, int16(choice))
		if choice < 0 {
			extra := int64(0)
			if choice < -1 {
				extra = int64(-choice-1) * 1000000
			}
			s.advance(dl + extra)
			continue
		}
		if last >= 0 && last != choice && s.th[last].state == stParked && s.th[last].inOp && s.canRun(last) {
			s.res.Preemptions++
		}
		s.dispatch(choice)
		last = choice
	}
}

//go:norace
func (s *Sim) freeze() {
	s.res.Froze = true
	for t := 0; t < s.n; t++ {
		if t != s.cfg.Probe && s.th[t].state == stParked {
			s.th[t].state = stFrozen
		}
	}
	if s.th[s.cfg.Probe].state == stHeld {
		s.th[s.cfg.Probe].state = stParked
	}
	s.event(-2, KNone, -1, true, 0)
}

// FormatLog renders the event log (symbolic, address free).
func FormatLog(log []Event) []string {
	out := make([]string, 0, len(log))
	for _, e := range log {
		out = append(out, fmt.Sprintf("%d t%d %s @%d ok=%v val=%d", e.Seq, e.T, e.Kind, e.Sym, e.OK, e.Val))
	}
	return out
}
