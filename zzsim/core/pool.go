package core

import "unsafe"

// Pool has the API of sync.Pool and is deterministic: the real one drops a quarter of the Puts at
// random under the race detector, keeps per-P caches and is emptied by the garbage collector at
// moments nobody controls.  Here the items live in a small array; whether a Get finds the pool
// emptied ("a GC cycle ran") and whether items come back newest-first or oldest-first is derived
// from the seed of the run; PoolReset forgets every pool at the start of a run, so a run never
// depends on the runs before it.  The happens-before edge of the real Pool (Put of x before the
// Get that returns x) is reproduced with the race detector's annotations.
type Pool struct {
	_     [0]func() // not comparable, like sync.Pool
	New   func() any
	items [poolCap]any
	n     int
	ops   uint64
	reg   bool
}

const poolCap = 24

var (
	pools     []*Pool
	poolSeed  uint64
	poolRaceH [128]uint64
	// PoolGets / PoolHits count Gets and Gets served with a recycled item (evidence).
	PoolGets, PoolHits int64
)

//go:norace
func PoolReset(seed uint64) {
	for _, p := range pools {
		for i := range p.items {
			p.items[i] = nil
		}
		p.n, p.ops, p.reg = 0, 0, false
	}
	pools = pools[:0]
	poolSeed = seed
}

//go:norace
func poolMix(a, b uint64) uint64 {
	x := a ^ (b+1)*0x9E3779B97F4A7C15
	x ^= x >> 31
	x *= 0xBF58476D1CE4E5B9
	x ^= x >> 29
	return x
}

//go:norace
func poolAddr(x any) unsafe.Pointer {
	p := uintptr((*[2]unsafe.Pointer)(unsafe.Pointer(&x))[1])
	return unsafe.Pointer(&poolRaceH[(p>>4)%128])
}

//go:norace
func (p *Pool) touch() {
	if !p.reg {
		p.reg = true
		pools = append(pools, p)
	}
	p.ops++
}

//go:norace
func (p *Pool) take() (x any, ok bool) {
	p.touch()
	PoolGets++
	if p.n > 0 && poolMix(poolSeed, p.ops)%8 == 0 {
		for i := 0; i < p.n; i++ { // a garbage collection emptied the pool
			p.items[i] = nil
		}
		p.n = 0
	}
	if p.n == 0 {
		return nil, false
	}
	PoolHits++
	if poolMix(poolSeed, 0)&1 == 0 { // newest first
		p.n--
		x = p.items[p.n]
		p.items[p.n] = nil
		return x, true
	}
	x = p.items[0]             // oldest first (the item migrated through the shared queue)
	for i := 1; i < p.n; i++ { // not copy(): the runtime's slice copy reports to the race detector whatever the caller is marked
		p.items[i-1] = p.items[i]
	}
	p.n--
	p.items[p.n] = nil
	return x, true
}

//go:norace
func (p *Pool) put(x any) {
	p.touch()
	if p.n == poolCap || poolMix(poolSeed, p.ops)%16 == 1 {
		return // dropped, as the real Pool may
	}
	p.items[p.n] = x
	p.n++
}

func (p *Pool) Get() any {
	if x, ok := p.take(); ok {
		raceAcquire(poolAddr(x))
		return x
	}
	if p.New != nil {
		return p.New()
	}
	return nil
}

func (p *Pool) Put(x any) {
	if x == nil {
		return
	}
	raceReleaseMerge(poolAddr(x))
	p.put(x)
}
