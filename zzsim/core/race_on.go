//go:build race

package core

import (
	"runtime"
	"unsafe"
)

func raceAcquire(p unsafe.Pointer)      { runtime.RaceAcquire(p) }
func raceReleaseMerge(p unsafe.Pointer) { runtime.RaceReleaseMerge(p) }
