package core

// Env is the environment PRNG: every decision of the simulated environment that is not a
// scheduling decision (map iteration order, entropy bytes, math/rand package-level draws)
// comes from it.  It is separate from the scheduler's stream so that replaying a schedule
// from a script does not shift the environment's draws.  Accessed from simulated threads,
// hence norace.
var envState uint64
var envDraws uint64

//go:norace
func EnvSeed(seed uint64) { envState = seed; envDraws = 0 }

//go:norace
func EnvU64() uint64 {
	envDraws++
	envState += 0x9E3779B97F4A7C15
	z := envState
	z = (z ^ (z >> 30)) * 0xBF58476D1CE4E5B9
	z = (z ^ (z >> 27)) * 0x94D049BB133111EB
	return z ^ (z >> 31)
}

//go:norace
func EnvN(n int) int {
	if n <= 1 {
		return 0
	}
	return int(EnvU64() % uint64(n))
}

//go:norace
func EnvDraws() uint64 { return envDraws }

// Reach probes shared with shim packages (norace counters).
const (
	PMapRange = iota
	PMapRangePermuted
	PEntropyRead
	PEntropyErr
	PMathRand
	PClockRead
	PYield
	NProbes = 16
)

var Probes [NProbes]uint64

//go:norace
func Hit(i int) { Probes[i]++ }

//go:norace
func ProbesReset() { Probes = [NProbes]uint64{} }

// BaseGoroutines is the number of goroutines alive when the current sequential run began (set by
// the Engine-C harness): more than that means the code under test has started goroutines.
var BaseGoroutines int
