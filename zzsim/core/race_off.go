//go:build !race

package core

import "unsafe"

func raceAcquire(p unsafe.Pointer)      {}
func raceReleaseMerge(p unsafe.Pointer) {}
