// Package smap owns Go's map iteration order.  The rewriter turns
//
//	for k, v := range m { body }
//
// into
//
//	for _, k := range smap.Keys(m) { v, ok := m[k]; if !ok { continue }; body }
//
// Keys returns the keys present when the loop starts, sorted canonically and then permuted
// by the simulator's environment PRNG.  This is one of the orders the language permits:
// entries removed before being reached are skipped, entries added during the iteration are
// not produced ("may or may not" in the spec).
package smap

import (
	"fmt"
	"sort"

	"github.com/welllog/golib/zzsim/core"
)

// Mode: 0 = permute with the environment PRNG, 1 = ascending canonical, 2 = descending.
var Mode int

func Keys[M ~map[K]V, K comparable, V any](m M) []K {
	core.Hit(core.PMapRange)
	keys := make([]K, 0, len(m))
	for k := range m {
		keys = append(keys, k)
	}
	if len(keys) < 2 {
		return keys
	}
	sortKeys(keys)
	switch Mode {
	case 1:
	case 2:
		for i, j := 0, len(keys)-1; i < j; i, j = i+1, j-1 {
			keys[i], keys[j] = keys[j], keys[i]
		}
	default:
		for i := len(keys) - 1; i > 0; i-- {
			j := core.EnvN(i + 1)
			keys[i], keys[j] = keys[j], keys[i]
		}
	}
	return keys
}

func sortKeys[K comparable](keys []K) {
	switch ks := any(keys).(type) {
	case []int:
		sort.Ints(ks)
	case []string:
		sort.Strings(ks)
	case []int64:
		sort.Slice(ks, func(i, j int) bool { return ks[i] < ks[j] })
	case []uint64:
		sort.Slice(ks, func(i, j int) bool { return ks[i] < ks[j] })
	case []uint32:
		sort.Slice(ks, func(i, j int) bool { return ks[i] < ks[j] })
	case []int32:
		sort.Slice(ks, func(i, j int) bool { return ks[i] < ks[j] })
	case []uint16:
		sort.Slice(ks, func(i, j int) bool { return ks[i] < ks[j] })
	case []uint:
		sort.Slice(ks, func(i, j int) bool { return ks[i] < ks[j] })
	default:
		strs := make([]string, len(keys))
		for i, k := range keys {
			strs[i] = fmt.Sprintf("%T|%#v", k, k)
		}
		idx := make([]int, len(keys))
		for i := range idx {
			idx[i] = i
		}
		sort.SliceStable(idx, func(a, b int) bool { return strs[idx[a]] < strs[idx[b]] })
		out := make([]K, len(keys))
		for i, j := range idx {
			out[i] = keys[j]
		}
		copy(keys, out)
	}
}
