// Package smrand has the API of math/rand that golib uses.  Types are the real ones; every
// Source created through NewSource and every package-level draw is fed by the simulator
// (Word hook, default: the environment PRNG), so tower heights, fallback random parts etc. are
// generated inputs of a run instead of clock-seeded luck.
package smrand

import (
	"math/rand"

	"github.com/welllog/golib/zzsim/core"
)

type (
	Rand     = rand.Rand
	Source   = rand.Source
	Source64 = rand.Source64
	Zipf     = rand.Zipf
)

// Word, if set, produces the next 64-bit word of every simulated source.
var Word func() uint64

// Sources counts NewSource calls, Words the words handed out (reach probes).
var Sources, Words int

func word() uint64 {
	Words++
	core.Hit(core.PMathRand)
	if Word != nil {
		return Word()
	}
	return core.EnvU64()
}

type simSource struct{}

func (simSource) Int63() int64    { return int64(word() >> 1) }
func (simSource) Uint64() uint64  { return word() }
func (simSource) Seed(seed int64) {}

func NewSource(seed int64) Source { Sources++; return simSource{} }
func New(src Source) *Rand        { return rand.New(src) }

var global = rand.New(simSource{})

func Seed(seed int64)                    {}
func Int63() int64                       { return global.Int63() }
func Uint32() uint32                     { return global.Uint32() }
func Uint64() uint64                     { return global.Uint64() }
func Int31() int32                       { return global.Int31() }
func Int() int                           { return global.Int() }
func Int63n(n int64) int64               { return global.Int63n(n) }
func Int31n(n int32) int32               { return global.Int31n(n) }
func Intn(n int) int                     { return global.Intn(n) }
func Float64() float64                   { return global.Float64() }
func Float32() float32                   { return global.Float32() }
func Perm(n int) []int                   { return global.Perm(n) }
func Shuffle(n int, swap func(i, j int)) { global.Shuffle(n, swap) }
func Read(p []byte) (int, error)         { return global.Read(p) }
func NormFloat64() float64               { return global.NormFloat64() }
func ExpFloat64() float64                { return global.ExpFloat64() }
