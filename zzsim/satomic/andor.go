package satomic

import (
	"sync/atomic"
	"unsafe"

	"github.com/welllog/golib/zzsim/core"
)

// And / Or (go1.23) and the Uintptr type: the rest of the sync/atomic API, same treatment.

func AndInt32(addr *int32, mask int32) int32 {
	core.Yield(core.KAdd, unsafe.Pointer(addr))
	v := atomic.AndInt32(addr, mask)
	core.Res(true, true, uint64(v&mask))
	return v
}

func OrInt32(addr *int32, mask int32) int32 {
	core.Yield(core.KAdd, unsafe.Pointer(addr))
	v := atomic.OrInt32(addr, mask)
	core.Res(true, true, uint64(v|mask))
	return v
}

func AndUint32(addr *uint32, mask uint32) uint32 {
	core.Yield(core.KAdd, unsafe.Pointer(addr))
	v := atomic.AndUint32(addr, mask)
	core.Res(true, true, uint64(v&mask))
	return v
}

func OrUint32(addr *uint32, mask uint32) uint32 {
	core.Yield(core.KAdd, unsafe.Pointer(addr))
	v := atomic.OrUint32(addr, mask)
	core.Res(true, true, uint64(v|mask))
	return v
}

func AndInt64(addr *int64, mask int64) int64 {
	core.Yield(core.KAdd, unsafe.Pointer(addr))
	v := atomic.AndInt64(addr, mask)
	core.Res(true, true, uint64(v&mask))
	return v
}

func OrInt64(addr *int64, mask int64) int64 {
	core.Yield(core.KAdd, unsafe.Pointer(addr))
	v := atomic.OrInt64(addr, mask)
	core.Res(true, true, uint64(v|mask))
	return v
}

func AndUint64(addr *uint64, mask uint64) uint64 {
	core.Yield(core.KAdd, unsafe.Pointer(addr))
	v := atomic.AndUint64(addr, mask)
	core.Res(true, true, v&mask)
	return v
}

func OrUint64(addr *uint64, mask uint64) uint64 {
	core.Yield(core.KAdd, unsafe.Pointer(addr))
	v := atomic.OrUint64(addr, mask)
	core.Res(true, true, v|mask)
	return v
}

func AndUintptr(addr *uintptr, mask uintptr) uintptr {
	core.Yield(core.KAdd, unsafe.Pointer(addr))
	v := atomic.AndUintptr(addr, mask)
	core.Res(true, true, uint64(v&mask))
	return v
}

func OrUintptr(addr *uintptr, mask uintptr) uintptr {
	core.Yield(core.KAdd, unsafe.Pointer(addr))
	v := atomic.OrUintptr(addr, mask)
	core.Res(true, true, uint64(v|mask))
	return v
}

func (x *Int32) And(mask int32) int32    { return AndInt32(&x.v, mask) }
func (x *Int32) Or(mask int32) int32     { return OrInt32(&x.v, mask) }
func (x *Uint32) And(mask uint32) uint32 { return AndUint32(&x.v, mask) }
func (x *Uint32) Or(mask uint32) uint32  { return OrUint32(&x.v, mask) }
func (x *Int64) And(mask int64) int64    { return AndInt64(&x.v, mask) }
func (x *Int64) Or(mask int64) int64     { return OrInt64(&x.v, mask) }
func (x *Uint64) And(mask uint64) uint64 { return AndUint64(&x.v, mask) }
func (x *Uint64) Or(mask uint64) uint64  { return OrUint64(&x.v, mask) }

// Uintptr mirrors atomic.Uintptr.
type Uintptr struct {
	_ noCopy
	v uintptr
}

func (x *Uintptr) Load() uintptr                        { return LoadUintptr(&x.v) }
func (x *Uintptr) Store(val uintptr)                    { StoreUintptr(&x.v, val) }
func (x *Uintptr) Swap(new uintptr) uintptr             { return SwapUintptr(&x.v, new) }
func (x *Uintptr) Add(delta uintptr) uintptr            { return AddUintptr(&x.v, delta) }
func (x *Uintptr) CompareAndSwap(old, new uintptr) bool { return CompareAndSwapUintptr(&x.v, old, new) }
func (x *Uintptr) And(mask uintptr) uintptr             { return AndUintptr(&x.v, mask) }
func (x *Uintptr) Or(mask uintptr) uintptr              { return OrUintptr(&x.v, mask) }
