module github.com/welllog/golib/zzsim

go 1.18
