// Package sruntime has the part of the runtime API golib uses.  Gosched is a scheduling
// point that marks the caller as spinning: it is not re-enabled until another thread has
// performed a writing step (or the simulator grants a fair retry).
package sruntime

import (
	"runtime"

	"github.com/welllog/golib/zzsim/core"
)

func Gosched() {
	if core.Active() {
		core.Yield(core.KGosched, nil)
		return
	}
	runtime.Gosched()
}

type (
	Frame  = runtime.Frame
	Frames = runtime.Frames
	Func   = runtime.Func
	Error  = runtime.Error
)

func Callers(skip int, pc []uintptr) int              { return runtime.Callers(skip+1, pc) }
func CallersFrames(callers []uintptr) *runtime.Frames { return runtime.CallersFrames(callers) }
func Caller(skip int) (uintptr, string, int, bool)    { return runtime.Caller(skip + 1) }
func Stack(buf []byte, all bool) int                  { return runtime.Stack(buf, all) }
func NumCPU() int                                     { return runtime.NumCPU() }
func NumGoroutine() int                               { return runtime.NumGoroutine() }
func GOMAXPROCS(n int) int                            { return runtime.GOMAXPROCS(n) }
func GC()                                             { runtime.GC() }
func KeepAlive(x any)                                 { runtime.KeepAlive(x) }
func FuncForPC(pc uintptr) *runtime.Func              { return runtime.FuncForPC(pc) }
func Goexit()                                         { runtime.Goexit() }

const (
	GOOS   = runtime.GOOS
	GOARCH = runtime.GOARCH
)
