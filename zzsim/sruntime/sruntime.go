// Package sruntime has the part of the runtime API golib uses.  Gosched is a scheduling
// point that marks the caller as spinning: it is not re-enabled until another thread has
// performed a writing step (or the simulator grants a fair retry).
package sruntime

import (
	"runtime"

	"github.com/welllog/golib/zzsim/core"
)

func Gosched() {
	if core.Active() {
		core.Yield(core.KGosched, nil)
		return
	}
	runtime.Gosched()
}

type (
	Frame    = runtime.Frame
	Frames   = runtime.Frames
	Func     = runtime.Func
	Error    = runtime.Error
	MemStats = runtime.MemStats
)

func Callers(skip int, pc []uintptr) int              { return runtime.Callers(skip+1, pc) }
func CallersFrames(callers []uintptr) *runtime.Frames { return runtime.CallersFrames(callers) }
func Caller(skip int) (uintptr, string, int, bool)    { return runtime.Caller(skip + 1) }
func Stack(buf []byte, all bool) int                  { return runtime.Stack(buf, all) }

// NumCPU and GOMAXPROCS answer with the simulated machine's processor count (core.SimCPUs, one
// value per worker process, derived from the seed): code that sizes stripes, shards or tables
// by it must not depend on the machine the check happens to run on.  Setting it is ignored.
func NumCPU() int {
	if core.SimCPUs > 0 {
		return core.SimCPUs
	}
	return runtime.NumCPU()
}
func GOMAXPROCS(n int) int {
	if core.SimCPUs > 0 {
		return core.SimCPUs
	}
	return runtime.GOMAXPROCS(n)
}
func NumGoroutine() int                   { return runtime.NumGoroutine() }
func GC()                                 { runtime.GC() }
func KeepAlive(x any)                     { runtime.KeepAlive(x) }
func FuncForPC(pc uintptr) *runtime.Func  { return runtime.FuncForPC(pc) }
func Goexit()                             { runtime.Goexit() }
func SetFinalizer(obj any, finalizer any) { runtime.SetFinalizer(obj, finalizer) }
func ReadMemStats(m *runtime.MemStats)    { runtime.ReadMemStats(m) }
func Version() string                     { return runtime.Version() }
func LockOSThread()                       { runtime.LockOSThread() }
func UnlockOSThread()                     { runtime.UnlockOSThread() }

const (
	GOOS     = runtime.GOOS
	GOARCH   = runtime.GOARCH
	Compiler = runtime.Compiler
)
