// Package stime has the part of the time API golib uses, on the simulated clock.
// Inside an Engine-A simulation the clock is core's discrete-event clock; in sequential
// (Engine C) harnesses the clock is the package variable Clock, advanced by the harness
// through the Tick hook each time it is read.
package stime

import (
	"runtime"
	"time"
	"unsafe"

	"github.com/welllog/golib/zzsim/core"
)

type (
	Duration = time.Duration
	Time     = time.Time
	Month    = time.Month
	Weekday  = time.Weekday
	Location = time.Location
)

const (
	Nanosecond  = time.Nanosecond
	Microsecond = time.Microsecond
	Millisecond = time.Millisecond
	Second      = time.Second
	Minute      = time.Minute
	Hour        = time.Hour
)

const (
	RFC3339     = time.RFC3339
	RFC3339Nano = time.RFC3339Nano
)

var (
	UTC   = time.UTC
	Local = time.Local
)

// Base is simulated time zero.
var Base = time.Date(2024, 1, 2, 3, 4, 5, 0, time.UTC)

// Clock is the sequential-harness clock (ns since Base).  OnRead, if set, is called before
// every read so that the harness's clock trace decides what each read observes.
var (
	Clock  int64
	OnRead func()
	Reads  int
)

func nowNs() int64 {
	if core.Active() {
		// reading the clock is a scheduling point: the thread may be descheduled between the
		// statement before and this read, and ticks may pass meanwhile
		return core.ClockRead()
	}
	Reads++
	if OnRead != nil {
		OnRead()
	}
	return Clock
}

func Now() Time                 { return Base.Add(Duration(nowNs())) }
func Since(t Time) Duration     { return Now().Sub(t) }
func Until(t Time) Duration     { return t.Sub(Now()) }
func Unix(sec, nsec int64) Time { return time.Unix(sec, nsec) }
func UnixMilli(ms int64) Time   { return time.UnixMilli(ms) }
func UnixMicro(us int64) Time   { return time.UnixMicro(us) }
func Date(y int, m Month, d, h, mi, s, ns int, l *Location) Time {
	return time.Date(y, m, d, h, mi, s, ns, l)
}
func ParseDuration(s string) (Duration, error) { return time.ParseDuration(s) }
func Parse(layout, value string) (Time, error) { return time.Parse(layout, value) }

// Ticker mirrors time.Ticker; the rewriter turns `<-t.C` into `t.RecvC()`.
type Ticker struct {
	C  <-chan Time // never ready: any use the rewriter missed deadlocks loudly (watchdog)
	tm *core.Timer
}

func chanPtr(ch <-chan Time) unsafe.Pointer { return *(*unsafe.Pointer)(unsafe.Pointer(&ch)) }

func newChan(tm *core.Timer) <-chan Time {
	ch := make(chan Time) // never ready: a receive the rewriter missed blocks for real (watchdog)
	var ro <-chan Time = ch
	core.RegisterChan(chanPtr(ro), tm)
	return ro
}

func NewTicker(d Duration) *Ticker {
	if d <= 0 {
		panic("non-positive interval for NewTicker")
	}
	tm := core.NewTimer(int64(d), int64(d))
	return &Ticker{C: newChan(tm), tm: tm}
}

// After returns a channel value tied to a simulated one-shot timer.
func After(d Duration) <-chan Time { return newChan(core.NewTimer(int64(d), 0)) }

// Tick returns a channel value tied to a simulated ticker.
func Tick(d Duration) <-chan Time { return newChan(core.NewTimer(int64(d), int64(d))) }

// Recv replaces `<-ch` for every channel of time.Time.
func Recv(ch <-chan Time) Time {
	if tm := core.LookupChan(chanPtr(ch)); tm != nil {
		at, _ := core.YieldTimer(tm)
		return Base.Add(Duration(at))
	}
	return <-ch
}

// Sel is the outcome of a simulated select: I is the index of the case taken (-1 = default).
type Sel struct {
	I int
	T Time
}

// Select replaces a select statement whose cases all receive from channels of time.Time.
func Select(hasDefault bool, chans ...<-chan Time) Sel {
	tms := make([]*core.Timer, len(chans))
	for i, ch := range chans {
		tms[i] = core.LookupChan(chanPtr(ch))
	}
	i, at := core.YieldSelect(tms, hasDefault)
	return Sel{I: i, T: Base.Add(Duration(at))}
}

func (t *Ticker) Stop()            { t.tm.Stop() }
func (t *Ticker) Reset(d Duration) { t.tm.Reset(int64(d)) }
func (t *Ticker) RecvC() Time {
	at, _ := core.YieldTimer(t.tm)
	return Base.Add(Duration(at))
}

type Timer struct {
	C  <-chan Time
	tm *core.Timer
}

func NewTimer(d Duration) *Timer {
	tm := core.NewTimer(int64(d), 0)
	return &Timer{C: newChan(tm), tm: tm}
}

func (t *Timer) Stop() bool { t.tm.Stop(); return true }
func (t *Timer) Reset(d Duration) bool {
	t.tm.Reset(int64(d))
	return true
}
func (t *Timer) RecvC() Time {
	at, _ := core.YieldTimer(t.tm)
	return Base.Add(Duration(at))
}

// RecvAfter replaces `<-time.After(d)`.
func RecvAfter(d Duration) Time {
	tm := core.NewTimer(int64(d), 0)
	at, _ := core.YieldTimer(tm)
	return Base.Add(Duration(at))
}

func Sleep(d Duration) {
	if core.Foreign() {
		runtime.Gosched() // a goroutine of the code under test's own: not scheduled by the simulator
		return
	}
	if core.Active() {
		core.YieldSleep(int64(d))
		return
	}
	Clock += int64(d)
}
