module verif

go 1.23

require github.com/anishathalye/porcupine v1.3.0
