#!/usr/bin/env python3
"""mkprompts_ref.py <suffix> [focus.json]: prompts for CORRECT (behaviour-preserving) rewrites, written to
/tmp/wt/out-<id><suffix>/prompt.txt.  The prompt contains only the property text, the worktree path and the
task (nothing from /verif).  The checks must stay silent on the result."""
import json, sys, os
suffix = sys.argv[1]
focus = json.load(open(sys.argv[2])) if len(sys.argv) > 2 else {}
props = {}
for l in open('/verif/properties.jsonl'):
    p = json.loads(l); props[p['id']] = p
pk = {'C01':'ringz','C02':'listz','C03':'setz','C09':'cryptz','C11':'listz','C12':'mapz','C18':'algz','C19':'goz','C20':'randz'}
for pid in pk:
    p = props[pid]; lo = pid.lower() + suffix
    os.makedirs(f'/tmp/wt/out-{lo}', exist_ok=True)
    text = f"""You are helping to evaluate a verification effort for the Go library welllog/golib by writing a substantial but CORRECT change into a scratch copy of it. The verification must NOT raise an alarm on your change, so correctness matters: take your time to convince yourself.

Your scratch git worktree of the library is /tmp/wt/{lo} (work ONLY there; never touch /repo or /verif, never read /verif). Output directory: /tmp/wt/out-{lo}. Never use git stash (worktrees share it); to compare with the original, save `git diff > /tmp/{lo}.patch` and use `git apply -R` / `git apply`.

Every shell command that builds or tests Go must start with:
  export GOFLAGS=-mod=mod GOPROXY=off GOSUMDB=off GOTOOLCHAIN=local
(the sandbox has no network; the default `go` is go1.23.5; only the standard library is available).

The property the library must KEEP satisfying (read it carefully; your change must preserve every clause of it, for every input, schedule and fault it quantifies over):

{pid}: {p['title']}
STATEMENT: {p['statement']}
QUANTIFIED OVER: {p['quantifier']['text']}
CODE: {', '.join(p['anchors']['files'])}

TASK: make a substantial change (20-80 changed lines, non-test files only) to the code listed above that a maintainer could plausibly merge and that keeps the property and all documented behaviour of the exported API intact. {focus.get(pid, 'A rewrite of one or two functions in a different style is fine.')}
Requirements:
 1. the library still compiles (`go build ./...`, `go vet ./{pk[pid]}/`) and the package's existing test suite passes unedited (`go test -count=1 ./{pk[pid]}/`, 3 times, and once with -race);
 2. you have written an old-versus-new differential or model-based test of your own (randomised, many iterations; for concurrent code also a stress test under -race) and it passes; think specifically about the rare states (empty, full, wrap-around, zero value, concurrent overlap, errors, panics, re-use after Clear/Reset) in which a shortcut could be wrong, and make sure yours is not;
 3. exported signatures and documented behaviour are unchanged; do not add dependencies outside the standard library.

Deliver in /tmp/wt/out-{lo}/:
 - patch.diff : `git diff` of your change (library source only; applies with `git apply` to a clean checkout of the same commit);
 - meta.json : {{"property":"{pid}","summary":"what was rewritten and why it is still correct (2-4 sentences)"}}.
Leave the worktree with your change applied (do not commit). Final answer: 5-10 lines: what you changed, why it is correct in the rare states, how you verified."""
    open(f'/tmp/wt/out-{lo}/prompt.txt', 'w').write(text)
print("ok")
