#!/bin/bash
# confirm_seeded.sh <name> <outdir> <pkg> : independently confirms a sub-agent's change in a fresh
# scratch worktree of /repo: patch applies, library builds, the package's own tests pass, the
# demonstration fails with the change and passes without it. Then stores it under /verif/seeded/<name>.
set -u
name=$1; out=$2; pkg=$3
export GOFLAGS=-mod=mod GOPROXY=off GOSUMDB=off GOTOOLCHAIN=local
wt=$(mktemp -d /tmp/confirm-XXXXXX)
git -C /repo worktree add --detach "$wt/w" HEAD >/dev/null 2>&1 || { echo "worktree failed"; exit 2; }
cd "$wt/w"
res=""
demo=$(ls "$out"/*_test.go 2>/dev/null | head -1)
run_demo() { # with demo copied into package dir
  cp "$out"/*_test.go "$pkg"/ 2>/dev/null
  timeout 600 go test -count=1 -run 'Demo|Seeded|C[0-9][0-9]' ${RACE:-} ./"$pkg"/ >"$wt/demo.log" 2>&1; rc=$?
  for f in "$out"/*_test.go; do rm -f "$pkg/$(basename $f)"; done
  return $rc
}
if [ -n "$demo" ]; then
  run_demo; base=$?
else
  base=99
fi
git apply "$out/patch.diff" || { echo "patch does not apply"; res="patch-fails"; }
go build ./... >"$wt/build.log" 2>&1 || res="$res build-fails"
timeout 900 go test -count=1 ./"$pkg"/ >"$wt/test.log" 2>&1 || res="$res tests-fail"
if [ -n "$demo" ]; then run_demo; with=$?; else with=99; fi
echo "name=$name demo_without_change=$base demo_with_change=$with ${res:-build+tests ok}"
tail -3 "$wt/demo.log" 2>/dev/null
if [ -z "$res" ] && [ "$base" = 0 ] && [ "$with" != 0 ]; then
  mkdir -p /verif/seeded/$name
  cp "$out/patch.diff" "$out/meta.json" /verif/seeded/$name/ 2>/dev/null
  cp "$out"/*_test.go "$out"/*.go /verif/seeded/$name/ 2>/dev/null
  # keep the demo from being compiled as part of /verif's module
  for f in /verif/seeded/$name/*.go; do [ -f "$f" ] && mv "$f" "$f.txt"; done
  echo "CONFIRMED -> /verif/seeded/$name"
else
  echo "NOT CONFIRMED"
fi
cd /; git -C /repo worktree remove --force "$wt/w"; rm -rf "$wt"
