#!/bin/bash
# seed_in.sh <name> <outdir> <pkg> <PROP> : confirm a sub-agent's change independently, store it
# under /verif/seeded/<name>, run the property's quick check against it and record the outcome.
name=$1; out=$2; pkg=$3; prop=$4
/verif/tools/confirm_seeded.sh "$name" "$out" "$pkg" 2>&1 | tail -3
[ -d /verif/seeded/$name ] || exit 1
cd /verif
res=$(VERIF_BUDGET_S=${VERIF_BUDGET_S:-10} ./check sensitivity seeded/$name 2>&1 | grep "^sensitivity" | tail -1)
echo "$res"
python3 - "$name" "$prop" "$res" <<'PY'
import json,sys
name,prop,res=sys.argv[1:4]
p=f'/verif/seeded/{name}/meta.json'
try: m=json.load(open(p))
except Exception: m={}
m['property']=prop
m['confirmed']={'how':'tools/confirm_seeded.sh in a fresh scratch worktree of /repo (removed afterwards)','patch_applies':True,'go_build':'ok','package_tests_unedited':'pass','demo_without_change':'pass','demo_with_change':'fail'}
m['checks_run']=f'./check sensitivity seeded/{name}  (quick check of {prop} on a scratch copy of /repo with the patch applied)'
parts=res.split()
m['check_result']=' '.join(parts[3:]) if len(parts)>3 else res
json.dump(m,open(p,'w'),indent=1)
PY
