#!/usr/bin/env python3
"""Regenerates /verif/MANIFEST.json from the tables below (kept in one place so it stays valid)."""
import json, subprocess

NA = {
 "C04": "heapz is a single-goroutine container with no clock, randomness, I/O or concurrency: the outcome of a call sequence is a pure function of it, so there is no schedule or fault for a simulator to own (DESIGN.md section 8).",
 "C05": "Trie queries are pure functions of (pattern set, text); nothing nondeterministic to simulate (DESIGN.md section 8).",
 "C06": "Trie Replace/ReplaceWithMask are pure functions of (pattern set, text); a defect is visible by reading but finding it is input generation, not simulation (DESIGN.md sections 1.1, 8).",
 "C07": "escape codecs are pure functions of a byte string (DESIGN.md section 8).",
 "C08": "AES/PKCS#7 helpers are deterministic functions of (key, iv/nonce, data); corruption there is input variation with no medium, clock or peer (DESIGN.md section 8).",
 "C10": "by its own statement one goroutine and no clock; Ring is plain index arithmetic. C01's single-thread schedules and counter-wrap configurations exercise the SyncRing half incidentally, the Ring/Recap half has nothing a simulator could own (DESIGN.md section 8).",
 "C13": "DList/SList are sequential pointer structures: pure function of the call sequence (DESIGN.md section 8).",
 "C14": "slicez/FlexSlice are pure functions of slices (DESIGN.md section 8).",
 "C15": "stdlib re-implementations are pure functions of their input; the only clause with a peer (stream digests) is a bare io.Copy into a stdlib hash (DESIGN.md section 8).",
 "C16": "Bits/Bitmap are sequential bit arithmetic (DESIGN.md section 8).",
 "C17": "rune helpers are pure functions of (string, ints) (DESIGN.md section 8).",
}

COMPANION = "; plus a companion worker under the Go race detector (Engine-A scheduler, threads with instances of their own, first-use runs in fresh processes) for package-level state"

ENG = {
 "A": "deterministic atomic-step scheduler over the real code under the Go race detector",
 "B": "testing/synctest bubble with rewriter-inserted yields, seeded schedule",
 "C": "sequential simulation with owned clock, entropy, PRNG, map order and I/O peers",
}

CHECKS = {
 "C01": dict(engine="A", level="exploration", ref="DESIGN.md 4, 7 (C01)",
   tech="deterministic simulation: seeded interleaving of atomic steps of the real SyncRing (uniform, sticky, PCT and lockstep policies) + stalls/freeze faults + simulated clock with jumps; oracle = porcupine linearizability vs bounded FIFO, conservation, progress, Go race detector",
   text="Seeded search over interleavings of every atomic step of the real ringz/sync.go with stall and freeze faults and a simulated clock; each run is checked for conservation, linearizability against a bounded FIFO (porcupine), legitimacy of failures, progress, Len range and data races. Evidence over the seeds explored, not a proof.",
   note="Trusted: the Go race detector and memory model (SC for race-free programs), porcupine, the shim packages performing the real atomic after each scheduling point, the rewriter (import redirection only)."),
 "C11": dict(engine="A", level="exploration", ref="DESIGN.md 4, 7 (C11)",
   tech="deterministic simulation: seeded interleaving of atomic steps of the real SyncList (uniform, sticky, PCT and lockstep policies) + stall/freeze-and-probe faults + simulated clock; oracle = porcupine linearizability vs unbounded FIFO, counter probes, bounded liveness, Go race detector",
   text="Seeded search over interleavings of every atomic step of the real listz/sync_list.go with stall and freeze-and-probe faults; each run is checked for conservation, FIFO linearizability (porcupine), Len >= 0, Len >= poppable under freeze, exact Len when quiescent, pusher liveness under a fair scheduler and data races. Evidence over the seeds explored, not a proof.",
   note="Trusted: the Go race detector and memory model, porcupine, the shims, the rewriter (import redirection and timer-receive rewrite only)."),
 "C12": dict(engine="A", level="exploration", ref="DESIGN.md 4, 7 (C12)",
   tech="deterministic simulation: seeded interleaving at every lock operation of the real SafeKV with owned map iteration order; oracle = porcupine linearizability vs map model with snapshot operations, Go race detector",
   text="Seeded search over interleavings at every lock/unlock of the real mapz/safekv.go with the map iteration order owned by the simulator; each run is checked by the race detector and for linearizability of all methods (snapshot operations carry their whole output) against a map model. Evidence over the seeds explored, not a proof.",
   note="Trusted: the Go race detector and memory model, porcupine, the lock model in ssync (admission only; the real RWMutex is taken), the map-range rewrite (an order the language permits)."),
 "C02": dict(engine="C", level="exploration", ref="DESIGN.md 6, 7 (C02)",
   tech="deterministic simulation: sequential run with the list's private PRNG and the clock that seeds it owned by the simulator (tower heights become a seeded, adversarially distributed input); oracle = sorted-map reference model stepped op by op with full cross-check",
   text="Seeded operation histories over both list flavours, 11 key kinds (ordered and comparator flavours: int, string, uint16, float, byte-range strings, pairs, length-lexicographic strings, extreme-valued and dereferencing comparators over pointer keys) and three start states (New, Init, zero value) with every tower height drawn from the run seed under production and adversarial distributions; every return value and, after each mutation, every enumeration is compared with a sorted-map model. Evidence over the seeds explored, not a proof.",
   note="Trusted: the reference model (Go map + sort), the import redirection of math/rand and time in listz, math/rand.Rand arithmetic."),
 "C03": dict(engine="C", level="exploration", ref="DESIGN.md 6, 7 (C03)",
   tech="deterministic simulation: sequential run with the PRNG/clock of the embedded bucket skip list owned by the simulator; oracle = map[uint32] + sorted slice reference model, all three enumerations compared in full",
   text="Seeded histories of Add/Remove/Contains/Len and arithmetic runs that push buckets across the 4096 threshold in both directions, over few and many high-16 buckets, with the bucket list's tower heights simulated; Iter, Range and All are each compared (length and content, complete and early-stopped) with the sorted member list. Evidence over the seeds explored, not a proof.",
   note="Trusted: the reference model, the import redirection in listz/setz."),
 "C09": dict(engine="C", level="fault_enumeration", ref="DESIGN.md 6, 7 (C09)",
   tech="deterministic simulation with fault injection: encryptor -> medium -> decryptor with simulated entropy source, io.Reader/io.Writer peers (chunking, EOF placement, errors after k bytes) and medium faults (bit flips per field, truncation, extension, text substitution, wrong secret/AAD); oracle = independent OpenSSL EVP_BytesToKey/AES reference, round trip, prefix-only-on-fault",
   text="Seeded enumeration of fault kinds and positions: every reader chunking policy the io contract allows, peer errors after k bytes on either side, entropy failures and short reads, and medium faults in every field of the envelope, with fault-free and faulted classes kept apart; outputs are compared with an independent standard-library derivation of the OpenSSL format. Fault positions are sampled, not all enumerated.",
   note="Trusted: Go's crypto/md5, crypto/aes, crypto/cipher as the reference for openssl enc -aes-256-cbc -md md5; the io.Reader/io.Writer contract as written in package io."),
 "C18": dict(engine="C", level="exploration", ref="DESIGN.md 6, 7 (C18)",
   tech="deterministic simulation of Go's randomised map iteration order (seeded permutation of every map range in algz) over generated inputs; oracle = brute force over all subsets / vertex sets",
   text="The weakest claim: the only nondeterminism in algz is map iteration order, which the simulator owns (it changes which overshoot totals FindDpSolvers keeps); inputs are generated and compared with exhaustive enumeration of all 2^n selections (n <= 17) and all vertex subsets (<= 13 vertices), and with answers known by construction for bigger inputs (disjoint copies, structured graphs of hundreds of vertices, scaled units). Evidence over the seeds explored.",
   note="Trusted: the brute-force oracles; the map-range rewrite (an order the language permits)."),
 "C19": dict(engine="B", level="exploration", ref="DESIGN.md 5, 7 (C19)",
   tech="deterministic simulation: testing/synctest bubble with a yield inserted before every statement of goz.go, one seeded choice per step of which goroutine proceeds, fake clock; faults = task panics, stalled tasks; invariants checked at every quiescent point plus bounded liveness",
   text="Seeded search over interleavings of the submitting goroutine and the workers at statement granularity inside a synctest bubble, with panicking and blocking tasks injected; at every quiescent point: running <= limit, each task entered at most once; Wait returns only after all finished; handler received exactly the panic values; slots recovered. Evidence over the seeds explored, not a proof.",
   note="Trusted: Go 1.26 testing/synctest quiescence detection, the yield-insertion rewrite (adds calls only), the harness bookkeeping."),
 "C20": dict(engine="C", level="exploration", ref="DESIGN.md 6, 7 (C20)",
   tech="deterministic simulation: sequential run with simulated clock trace (time.Since), simulated entropy incl. failures forcing the math/rand fallback, simulated rand.Source; plus one finite table (ParseBase32 invalid bytes) enumerated exhaustively",
   text="Seeded clock traces (before start, next to millisecond boundaries, around 2^41 ms), entropy plans (errors, short reads, extreme bytes) and character sets; id shape is checked by arithmetic on the simulated clock value, strings by rune count and membership, numerals against strconv, CountGenerator by a sweep over elapsed times; the invalid-byte clause by exhaustive enumeration of a 9984-entry table. Evidence over the seeds explored; exhaustive only for that table.",
   note="Trusted: strconv as numeral reference; the import redirection of time, crypto/rand, math/rand in randz."),
}

def main():
    checks = []
    na = [dict(property_id=k, reason=v) for k, v in sorted(NA.items())]
    import os
    for pid, c in sorted(CHECKS.items()):
        if c["engine"] == "B":
            if not os.path.exists("/verif/harness/wb/wb_test.go"):
                continue
        elif not os.path.exists(f"/verif/harness/cmd/{pid.lower()}/main.go"):
            continue
        checks.append(dict(
            property_id=pid,
            quick_cmd=f"./check {pid} quick",
            thorough_cmd=f"./check {pid} thorough",
            evidence_file=f"/verif/evidence/{pid}.json",
            replay_cmd_template=f"./check {pid} --replay {{path}}",
            engine=c["engine"],
            level_claimed=dict(category=c["level"], text=c["text"], design_ref=c["ref"]),
            level_note=c["note"],
            technique=c["tech"] + (COMPANION if c["engine"] == "C" else ""),
        ))
    claimed = {c["property_id"] for c in checks}
    for pid in sorted(CHECKS):
        if pid not in claimed:
            na.append(dict(property_id=pid, reason="check not built yet in this snapshot of /verif (planned: see DESIGN.md section 7); not claimed until its check runs clean"))
    na.sort(key=lambda x: x["property_id"])
    m = dict(
        version=1,
        setup_cmd="./setup.sh",
        hooks=dict(guard="verif", enable="none needed: checks transform a scratch copy of /repo's working tree (import redirection to /verif/zzsim shims, map-range and timer-receive rewrite, yield insertion); no hook source lives in /repo",
                   baseline_off_cmd="cd /repo && go test -vet=off -count=1 -timeout 25m ./...", source_commits=[], add_only=True),
        engines=[dict(name=k, path="/verif/zzsim/core, /verif/harness" , serves_properties=sorted(p for p in claimed if CHECKS[p]["engine"]==k), kind_free_text=v) for k, v in ENG.items()],
        checks=checks,
        not_applicable=na,
        notes="Technique family: deterministic simulation with fault injection. See DESIGN.md. Replay files are written under /verif/replays; known findings in /verif/known_findings.json.",
    )
    json.dump(m, open("/verif/MANIFEST.json", "w"), indent=1)
    print("claimed:", sorted(claimed), "n/a:", len(na))

main()
