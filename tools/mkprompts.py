#!/usr/bin/env python3
"""mkprompts.py <suffix> : writes /tmp/wt/out-<id><suffix>/prompt.txt for every claimed property.
The prompt contains only the property text, the worktree path and the task (nothing from /verif)."""
import json, sys, os
suffix = sys.argv[1]
avoid_file = sys.argv[2] if len(sys.argv) > 2 else None
avoid = json.load(open(avoid_file)) if avoid_file else {}
props = {}
for l in open('/verif/properties.jsonl'):
    p = json.loads(l); props[p['id']] = p
pk = {'C01':'ringz','C02':'listz','C03':'setz','C09':'cryptz','C11':'listz','C12':'mapz','C18':'algz','C19':'goz','C20':'randz'}
hint = {
 'C01':"a particular interleaving of goroutines at specific atomic steps, a particular capacity/fill/rotation of the ring (e.g. counter values), a multi-step sequence, the timed PushWait/PopWait paths, or two cooperating sites that each look fine alone",
 'C02':"a particular combination of tower heights (the skip list's random levels), a particular sequence of inserts/removes that grows then shrinks the top level, a query bound that is absent with specific neighbours, a zero-value list after specific calls, or only the SkipListWithCmp flavour with a specific comparator",
 'C03':"a bucket being at a specific fill level around the 4096 sparse/dense threshold, a specific order of adds/removes, several 16-bit key buckets in a specific state (emptied, re-populated), a specific value inside a 64-bit word, an enumeration stopped early",
 'C09':"a reader/writer that splits data at a specific point or returns data together with EOF or an error after k bytes, a specific plaintext length relative to the block size, a failing or short-reading entropy source, a corruption at a specific position of the encoded message, a specific generic instantiation (string vs []byte)",
 'C11':"a particular interleaving of goroutines at specific atomic steps (e.g. a goroutine stalled between two of its atomic operations while others run), the timed PopWait path, or two cooperating sites that each look fine alone",
 'C12':"a particular interleaving of goroutines around lock acquisition/release (e.g. two calls both passing a check before either writes), a specific combination of methods running concurrently, or a data race that only the race detector or a specific schedule shows",
 'C18':"a particular iteration order of a Go map (which is randomised per run), specific ties between equal weights/values, a specific graph shape, a specific limit relative to attainable sums, a tie-breaker callback",
 'C19':"a particular interleaving of the submitting goroutine and worker goroutines at specific statements, a task that panics with a specific kind of value or at a specific moment, a specific limit value, or a sequence of submissions and Wait calls",
 'C20':"a specific clock value (e.g. elapsed time near a millisecond boundary or near 2^41 ms, clock before the start time), a failing or short-reading entropy source so that the fallback path runs, a specific randBit, a specific character-set size or multi-byte runes, a specific byte or position in the input, specific rule parameters",
}
for pid in pk:
    p = props[pid]; lo = pid.lower() + suffix
    os.makedirs(f'/tmp/wt/out-{lo}', exist_ok=True)
    av = ""
    if pid in avoid:
        av = f"\nEarlier contributors already used these ideas, so choose a DIFFERENT mechanism and a different part of the code or a different clause of the property: {avoid[pid]}. Good candidates are defects that involve two places that each look fine alone, an error/edge path rarely taken, or behaviour that only shows under a specific schedule, fault or internal random choice.\n"
    text = f"""You are helping to evaluate a verification effort for the Go library welllog/golib by writing a realistic, subtle DEFECT into a scratch copy of it.

Your scratch git worktree of the library is /tmp/wt/{lo} (work ONLY there; never touch /repo or /verif, never read /verif). Output directory: /tmp/wt/out-{lo}.

Every shell command that builds or tests Go must start with:
  export GOFLAGS=-mod=mod GOPROXY=off GOSUMDB=off GOTOOLCHAIN=local
(the sandbox has no network; the default `go` is go1.23.5).

The property the library is supposed to satisfy (read it carefully):

{pid}: {p['title']}
STATEMENT: {p['statement']}
QUANTIFIED OVER: {p['quantifier']['text']}
CODE: {', '.join(p['anchors']['files'])}

TASK: make ONE small change to the library source in /tmp/wt/{lo} (non-test files only, typically 1-15 lines, looking like a plausible refactoring/optimisation/bug a maintainer could introduce) such that:
 1. the library still compiles (`go build ./...`) and the package's existing test suite still passes, unedited (`go test -count=1 ./{pk[pid]}/` - run it at least 3 times; also run the tests of any other package you touched);
 2. the property above is violated for SOME execution;
 3. the violation needs something specific to manifest: {hint[pid]}. NOT something ordinary use exposes at once.
{av}
Also write a DEMONSTRATION that fails with your change and passes without it: a Go test file named demo_test.go (test function names starting with TestDemo) placed in /tmp/wt/out-{lo}/, to be copied into the package directory. If the defect needs a specific interleaving, fault or internal random choice, the demo may force it deterministically (controlled call order, many iterations with a high hit rate, white-box access from inside the package, or go test -race - say so in meta.json). Verify yourself: the demo fails with the change applied and passes on the unmodified code (reverse-apply your saved diff to switch; never use git stash).

Deliver in /tmp/wt/out-{lo}/:
 - patch.diff : `git diff` of your change to the library (library source only; applies with `git apply` to a clean checkout of the same commit);
 - demo_test.go;
 - meta.json : {{"property":"{pid}","summary":"what the change does","needs":"what is needed for it to manifest","demo":"how to run the demonstration and what it shows","race_flag_needed":false}}.
Leave the worktree with your change applied (do not commit). Final answer: 5-10 lines summarising the change, what it needs to manifest, and how you verified (commands + results)."""
    open(f'/tmp/wt/out-{lo}/prompt.txt', 'w').write(text)
print("ok")
