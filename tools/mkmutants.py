#!/usr/bin/env python3
"""Builds /verif/mutants/*.diff from the table below against /repo's current tree.
Each mutant breaks one property while still compiling; `./check sensitivity` requires the
property's quick check to report a VIOLATION for each (or documents it as equivalent).
Usage: mkmutants.py [--test]   (--test also runs the package's own tests on each mutant)"""
import os, subprocess, sys, tempfile, shutil, difflib

M = []
def m(name, prop, path, old, new, expect=None, count=1):
    M.append(dict(name=name, prop=prop, path=path, old=old, new=new, expect=expect, count=count))

# ---------------------------------------------------------------- C01 ringz/sync.go
m("c01_publish_before_write", "C01", "ringz/sync.go",
  "\tholder.value = value\n\t// atomic.AddUint32(&holder.pos, 1)\n\tatomic.StoreUint32(&holder.pos, seq+1)\n",
  "\tatomic.StoreUint32(&holder.pos, seq+1)\n\tholder.value = value\n")
m("c01_claim_load_store", "C01", "ringz/sync.go",
  "\tif !atomic.CompareAndSwapUint32(&r.tail, pos, pos+1) {\n\t\treturn false\n\t}\n\n\tholder.value = value",
  "\tif atomic.LoadUint32(&r.tail) != pos {\n\t\treturn false\n\t}\n\tatomic.StoreUint32(&r.tail, pos+1)\n\n\tholder.value = value")
m("c01_plain_store_pos", "C01", "ringz/sync.go",
  "\tatomic.StoreUint32(&holder.pos, seq+1)\n\treturn true",
  "\tholder.pos = seq + 1\n\treturn true")
m("c01_len_no_clamp", "C01", "ringz/sync.go",
  "\tif l > r.cap {\n\t\treturn int(r.cap)\n\t}\n", "")
m("c01_pop_read_after_release", "C01", "ringz/sync.go",
  "\tvalue := holder.value\n\tholder.value = zero\n\t// atomic.AddUint32(&holder.pos, r.mask)\n\tatomic.StoreUint32(&holder.pos, seq+r.mask)\n\treturn value, true",
  "\tatomic.StoreUint32(&holder.pos, seq+r.mask)\n\tvalue := holder.value\n\tholder.value = zero\n\treturn value, true")
m("c01_pop_claim_load_store", "C01", "ringz/sync.go",
  "\tif !atomic.CompareAndSwapUint32(&r.head, pos, pos+1) {\n\t\treturn zero, false\n\t}",
  "\tif atomic.LoadUint32(&r.head) != pos {\n\t\treturn zero, false\n\t}\n\tatomic.StoreUint32(&r.head, pos+1)")
m("c01_pop_accepts_claimed_slot", "C01", "ringz/sync.go",
  "\tif pos+1 != seq {\n\t\treturn zero, false\n\t}",
  "\tif pos+1 != seq && atomic.LoadUint32(&r.tail) == pos {\n\t\treturn zero, false\n\t}")
m("c01_isfull_uses_mask", "C01", "ringz/sync.go",
  "return atomic.LoadUint32(&r.tail)-atomic.LoadUint32(&r.head) == r.cap",
  "return atomic.LoadUint32(&r.tail)-atomic.LoadUint32(&r.head) >= r.mask")
m("c01_pushwait_returns_true_on_timeout", "C01", "ringz/sync.go",
  "\t\tif now.Sub(begin) >= maxWait {\n\t\t\tticker.Stop()\n\t\t\treturn false\n\t\t}\n\t}\n}\n\n// PopWait",
  "\t\tif now.Sub(begin) >= maxWait {\n\t\t\tticker.Stop()\n\t\t\treturn r.Len() < r.Cap()\n\t\t}\n\t}\n}\n\n// PopWait")

# ---------------------------------------------------------------- C11 listz/sync_list.go
m("c11_counter_after_tail", "C11", "listz/sync_list.go",
  "\t\t\tatomic.AddInt64(&l.len, 1)\n\t\t\tatomic.StorePointer(&l.tail, node)\n",
  "\t\t\tatomic.StorePointer(&l.tail, node)\n\t\t\tatomic.AddInt64(&l.len, 1)\n")
m("c11_value_before_cas", "C11", "listz/sync_list.go",
  "\tif atomic.CompareAndSwapPointer(&l.head, head, next) {\n\t\tnode := (*syncNode[T])(next)\n\t\tvalue := node.value\n",
  "\tnode := (*syncNode[T])(next)\n\tvalue := node.value\n\tif atomic.CompareAndSwapPointer(&l.head, head, next) {\n")
m("c11_load_tail_before_head", "C11", "listz/sync_list.go",
  "\thead := atomic.LoadPointer(&l.head)\n\ttail := atomic.LoadPointer(&l.tail)\n",
  "\ttail := atomic.LoadPointer(&l.tail)\n\thead := atomic.LoadPointer(&l.head)\n")
m("c11_giveup_on_cas_fail", "C11", "listz/sync_list.go",
  "\t\tif next == nil && atomic.CompareAndSwapPointer(&tailNode.next, next, node) {",
  "\t\tif next == nil && !atomic.CompareAndSwapPointer(&tailNode.next, next, node) {\n\t\t\treturn\n\t\t} else if next == nil {")
m("c11_plain_len_load", "C11", "listz/sync_list.go",
  "\treturn int(atomic.LoadInt64(&l.len))", "\treturn int(l.len)")
m("c11_plain_tail_store", "C11", "listz/sync_list.go",
  "\t\t\tatomic.StorePointer(&l.tail, node)\n", "\t\t\tl.tail = node\n")
m("c11_pop_dec_before_cas", "C11", "listz/sync_list.go",
  "\tif atomic.CompareAndSwapPointer(&l.head, head, next) {\n\t\tnode := (*syncNode[T])(next)\n\t\tvalue := node.value\n\t\tnode.value = zero\n\t\tatomic.AddInt64(&l.len, -1)\n\t\treturn value, true\n\t}\n",
  "\tatomic.AddInt64(&l.len, -1)\n\tif atomic.CompareAndSwapPointer(&l.head, head, next) {\n\t\tnode := (*syncNode[T])(next)\n\t\tvalue := node.value\n\t\tnode.value = zero\n\t\treturn value, true\n\t}\n\tatomic.AddInt64(&l.len, 1)\n")

# ---------------------------------------------------------------- C12 mapz
m("c12_keys_len_outside_lock", "C12", "mapz/safekv.go",
  "\ts.mu.RLock()\n\tkeys := make([]K, 0, len(s.entries))\n", "\tkeys := make([]K, 0, len(s.entries))\n\ts.mu.RLock()\n")
m("c12_len_no_lock", "C12", "mapz/safekv.go",
  "\ts.mu.RLock()\n\tl := len(s.entries)\n\ts.mu.RUnlock()\n\treturn l", "\treturn len(s.entries)")
m("c12_setnx_check_then_lock", "C12", "mapz/safekv.go",
  "\tvar ok bool\n\ts.mu.Lock()\n\tif _, ok = s.entries[key]; !ok {\n\t\ts.entries[key] = value\n\t}\n\ts.mu.Unlock()\n\treturn !ok",
  "\ts.mu.RLock()\n\t_, ok := s.entries[key]\n\ts.mu.RUnlock()\n\tif !ok {\n\t\ts.mu.Lock()\n\t\ts.entries[key] = value\n\t\ts.mu.Unlock()\n\t}\n\treturn !ok")
m("c12_setx_check_then_lock", "C12", "mapz/safekv.go",
  "\tvar ok bool\n\ts.mu.Lock()\n\tif _, ok = s.entries[key]; ok {\n\t\ts.entries[key] = value\n\t}\n\ts.mu.Unlock()\n\treturn ok",
  "\ts.mu.RLock()\n\t_, ok := s.entries[key]\n\ts.mu.RUnlock()\n\tif ok {\n\t\ts.mu.Lock()\n\t\ts.entries[key] = value\n\t\ts.mu.Unlock()\n\t}\n\treturn ok")
m("c12_delete_under_rlock", "C12", "mapz/safekv.go",
  "\ts.mu.Lock()\n\tfor _, key := range keys {\n\t\tdelete(s.entries, key)\n\t}\n\ts.mu.Unlock()",
  "\ts.mu.RLock()\n\tfor _, key := range keys {\n\t\tdelete(s.entries, key)\n\t}\n\ts.mu.RUnlock()")
m("c12_delete_lock_per_key", "C12", "mapz/safekv.go",
  "\ts.mu.Lock()\n\tfor _, key := range keys {\n\t\tdelete(s.entries, key)\n\t}\n\ts.mu.Unlock()",
  "\tfor _, key := range keys {\n\t\ts.mu.Lock()\n\t\tdelete(s.entries, key)\n\t\ts.mu.Unlock()\n\t}")
m("c12_clear_no_lock", "C12", "mapz/safekv.go",
  "\ts.mu.Lock()\n\ts.entries = make(map[K]V, len(s.entries))\n\ts.mu.Unlock()", "\ts.entries = make(map[K]V, len(s.entries))")
m("c12_range_relock_per_element", "C12", "mapz/safekv.go",
  "\ts.mu.RLock()\n\tfor k, v := range s.entries {\n\t\tif !fn(k, v) {\n\t\t\tbreak\n\t\t}\n\t}\n\ts.mu.RUnlock()",
  "\tfor _, k := range s.Keys() {\n\t\tv, ok := s.Get(k)\n\t\tif !ok {\n\t\t\tcontinue\n\t\t}\n\t\tif !fn(k, v) {\n\t\t\tbreak\n\t\t}\n\t}")
m("c12_getwithmap_lock_per_key", "C12", "mapz/safekv.go",
  "\ts.mu.RLock()\n\tfor k := range m {\n\t\tv, ok := s.entries[k]\n\t\tif ok {\n\t\t\tm[k] = v\n\t\t}\n\t}\n\ts.mu.RUnlock()",
  "\tfor k := range m {\n\t\ts.mu.RLock()\n\t\tv, ok := s.entries[k]\n\t\ts.mu.RUnlock()\n\t\tif ok {\n\t\t\tm[k] = v\n\t\t}\n\t}")
m("c12_map_under_rlock", "C12", "mapz/safekv.go",
  "\ts.mu.Lock()\n\tfn(s.entries)\n\ts.mu.Unlock()", "\ts.mu.RLock()\n\tfn(s.entries)\n\ts.mu.RUnlock()")
m("c12_setnx_early_return_keeps_lock", "C12", "mapz/safekv.go",
  "\tvar ok bool\n\ts.mu.Lock()\n\tif _, ok = s.entries[key]; !ok {\n\t\ts.entries[key] = value\n\t}\n\ts.mu.Unlock()\n\treturn !ok",
  "\ts.mu.Lock()\n\tif _, ok := s.entries[key]; ok {\n\t\treturn false\n\t}\n\ts.entries[key] = value\n\ts.mu.Unlock()\n\treturn true")
m("c12_has_no_lock", "C12", "mapz/safekv.go",
  "func (s *SafeKV[K, V]) Has(key K) bool {\n\ts.mu.RLock()\n\t_, ok := s.entries[key]\n\ts.mu.RUnlock()\n\treturn ok",
  "func (s *SafeKV[K, V]) Has(key K) bool {\n\t_, ok := s.entries[key]\n\treturn ok")
m("c12_all_no_lock", "C12", "mapz/iter.go",
  "\t\ts.mu.RLock()\n\t\tfor k, v := range s.entries {\n\t\t\tif !yield(k, v) {\n\t\t\t\tbreak\n\t\t\t}\n\t\t}\n\t\ts.mu.RUnlock()",
  "\t\tfor k, v := range s.entries {\n\t\t\tif !yield(k, v) {\n\t\t\t\tbreak\n\t\t\t}\n\t\t}")

# ---------------------------------------------------------------- C02 listz/skip.go, skip_cmp.go
m("c02_zero_clear_no_prng", "C02", "listz/skip.go",
  "\tif s.head.next == nil || s.rand == nil {", "\tif s.head.next == nil {")
m("c02_zero_rangewithstart_no_guard", "C02", "listz/skip.go",
  "func (s *SkipList[K, V]) RangeWithStart(start K, f func(key K, val V) bool) {\n\tif s.len == 0 {\n\t\treturn\n\t}\n\n",
  "func (s *SkipList[K, V]) RangeWithStart(start K, f func(key K, val V) bool) {\n")
m("c02_remove_unlinks_level0_only", "C02", "listz/skip.go",
  "\tfor i := 0; i < curLevel; i++ {\n\t\tupdate[i].next[i] = cur.next[i]\n\t}\n\tcur.next = nil\n",
  "\tfor i := 0; i < curLevel && i < 2; i++ {\n\t\tupdate[i].next[i] = cur.next[i]\n\t}\n")
m("c02_setx_inserts_when_tall", "C02", "listz/skip.go",
  "\tif mode == 1 {\n\t\t// set the value if the key exists\n\t\treturn false\n\t}",
  "\tif mode == 1 && s.level < 4 {\n\t\t// set the value if the key exists\n\t\treturn false\n\t}")
m("c02_rangewithrange_end_inclusive", "C02", "listz/skip.go",
  "\t\tif key >= end {\n\t\t\treturn false\n\t\t}", "\t\tif key > end {\n\t\t\treturn false\n\t\t}")
m("c02_rangewithstart_dup_start", "C02", "listz/skip.go",
  "\t\t\tif next.key == start {\n\t\t\t\tcur = next\n\t\t\t\tif !f(next.key, next.val) {",
  "\t\t\tif next.key == start {\n\t\t\t\tif i > 1 {\n\t\t\t\t\tcur = next\n\t\t\t\t}\n\t\t\t\tif !f(next.key, next.val) {")
m("c02_level_shrink_too_far", "C02", "listz/skip.go",
  "\t\tfor s.level > 1 && s.head.next[s.level-1] == nil {\n\t\t\ts.level--\n\t\t}",
  "\t\tfor s.level > 1 && (s.head.next[s.level-1] == nil || s.level > 6) {\n\t\t\ts.level--\n\t\t}")
m("c02_cmp_remove_keeps_len", "C02", "listz/skip_cmp.go",
  "\tif curLevel >= s.level {", "\tif curLevel > 5 {\n\t\ts.len++\n\t}\n\tif curLevel >= s.level {")
m("c02_cmp_rangewithstart_skips_on_top_level", "C02", "listz/skip_cmp.go",
  "\t\t\tif n == 0 {\n\t\t\t\tcur = next\n\t\t\t\tif !f(next.key, next.val) {",
  "\t\t\tif n == 0 {\n\t\t\t\tcur = next\n\t\t\t\tif i > 2 {\n\t\t\t\t\tbreak top\n\t\t\t\t}\n\t\t\t\tif !f(next.key, next.val) {")

# ---------------------------------------------------------------- C03 setz/roaring_bitmap.go
m("c03_iter_no_reset", "C03", "setz/roaring_bitmap.go",
  "\t\ti.node = i.node.Next()\n\t\ti.iter = nil\n", "\t\ti.node = i.node.Next()\n")
m("c03_threshold_off_by_one", "C03", "setz/roaring_bitmap.go",
  "\tif len(ac.values) < 4096 {", "\tif len(ac.values) <= 4096 {")
m("c03_length_4096_after_conversion", "C03", "setz/roaring_bitmap.go",
  "\tnewContainer.length = 4097", "\tnewContainer.length = 4096")
m("c03_empty_bucket_not_removed", "C03", "setz/roaring_bitmap.go",
  "\t\tif c.Len() == 0 {\n\t\t\tr.containers.Remove(high)\n\t\t}\n", "", expect="equivalent")
m("c03_remove_decrements_on_absent_dense", "C03", "setz/roaring_bitmap.go",
  "\tok = c.Remove(low)\n\tif ok {\n\t\tr.len--",
  "\tok = c.Remove(low)\n\tif !ok && c.Type() == 2 {\n\t\tr.len--\n\t}\n\tif ok {\n\t\tr.len--")
m("c03_range_dense_skips_bit63", "C03", "setz/roaring_bitmap.go",
  "\t\t\t\tfor j := 0; j < 64; j++ {\n\t\t\t\t\tif bc.Bitmap.set[i]&(1<<j) != 0 {\n\t\t\t\t\t\tif !fn(",
  "\t\t\t\tfor j := 0; j < 63; j++ {\n\t\t\t\t\tif bc.Bitmap.set[i]&(1<<j) != 0 {\n\t\t\t\t\t\tif !fn(")
m("c03_all_dense_skips_bit63", "C03", "setz/iter.go",
  "\t\t\t\t\tfor j := 0; j < 64; j++ {\n\t\t\t\t\t\tif bc.Bitmap.set[i]&(1<<j) != 0 {",
  "\t\t\t\t\tfor j := 0; j < 63; j++ {\n\t\t\t\t\t\tif bc.Bitmap.set[i]&(1<<j) != 0 {")
m("c03_conversion_drops_new_value", "C03", "setz/roaring_bitmap.go",
  "\tnewContainer.add(uint(x))\n", "")

# ---------------------------------------------------------------- C09 cryptz/crypt.go
m("c09_single_read_header", "C09", "cryptz/crypt.go",
  "\t_, err := io.ReadFull(stream, saltHeader)\n", "\t_, err := stream.Read(saltHeader)\n")
m("c09_two_md5_rounds", "C09", "cryptz/crypt.go",
  "\tfor i := 0; i < 3; i++ { // salted 48byte", "\tfor i := 0; i < 2; i++ { // salted 48byte")
m("c09_cbc_iv_wrong_offset", "C09", "cryptz/crypt.go",
  "\tiv := cred[_KEY_LEN:]  // 16 bytes, same as block size", "\tiv := cred[16:32]  // 16 bytes, same as block size", count=2)
m("c09_gcm_aad_ignored", "C09", "cryptz/crypt.go",
  "strz.UnsafeStrOrBytesToBytes(additionalData)", "[]byte(nil)", count=2)
m("c09_entropy_error_ignored", "C09", "cryptz/crypt.go",
  "\t_, err := io.ReadFull(rand.Reader, salt)\n\tif err != nil {\n\t\treturn fmt.Errorf(\"generate random salt error: %w\", err)\n\t}\n",
  "\t_, _ = io.ReadFull(rand.Reader, salt)\n")
m("c09_gcm_no_length_check", "C09", "cryptz/crypt.go",
  "\tif len(cipherText) < aes.BlockSize {\n\t\treturn nil, errors.New(\"cipherText text length illegal\")\n\t}\n\n\tif !bytes.Equal(cipherText[:8], fixedSaltHeader) {\n\t\treturn nil, errors.New(\"check fixed header error\")",
  "\tif len(cipherText) < 8 {\n\t\treturn nil, errors.New(\"cipherText text length illegal\")\n\t}\n\n\tif !bytes.Equal(cipherText[:8], fixedSaltHeader) {\n\t\treturn nil, errors.New(\"check fixed header error\")")
m("c09_stream_salt_not_written_fully", "C09", "cryptz/crypt.go",
  "\t_, err = out.Write(salt[:])\n\tif err != nil {\n\t\treturn fmt.Errorf(\"write salt error: %w\", err)\n\t}\n",
  "\t_, _ = out.Write(salt[:])\n")
m("c09_gcm_nonce_from_key", "C09", "cryptz/crypt.go",
  "\tnonce := cred[_KEY_LEN : _KEY_LEN+nonceSize]", "\tnonce := cred[:nonceSize]", count=2)

# ---------------------------------------------------------------- C18 algz
m("c18_dp_write_while_ranging", "C18", "algz/dp.go",
  "\t\t\tdpTmp[newValue] = newSolver\n", "\t\t\tdp[newValue] = newSolver\n")
m("c18_knapsack_shared_backing", "C18", "algz/dp.go",
  "\t\t\t\ttmp = append(tmp[:0], dp[i-w].items...)\n\t\t\t\ttmp = append(tmp, item)\n\t\t\t\tdp[i].items = append(dp[i].items[:0], tmp...)\n\t\t\t\tdp[i].score = newScore\n\t\t\t} else if",
  "\t\t\t\ttmp = append(tmp[:0], dp[i-w].items...)\n\t\t\t\ttmp = append(tmp, item)\n\t\t\t\tdp[i].items = tmp\n\t\t\t\tdp[i].score = newScore\n\t\t\t} else if")
m("c18_knapsack_i_gt_w", "C18", "algz/dp.go",
  "\t\tfor i := maxWeight; i >= w; i-- {", "\t\tfor i := maxWeight; i > w; i-- {")
m("c18_overshoot_ge", "C18", "algz/dp.go",
  "(overflow > 0 && newValue > overflow)", "(overflow > 0 && newValue >= overflow)", expect="equivalent")
m("c18_overshoot_first_only", "C18", "algz/dp.go",
  "(overflow > 0 && newValue > overflow)", "overflow > 0")
m("c18_bk_no_shrink", "C18", "algz/graph.go",
  "\t\tP = P[1:]\n", "")
m("c18_bk_x_not_grown", "C18", "algz/graph.go",
  "\t\tX = append(X, v)\n", "")
m("c18_best_overflow_prefers_under", "C18", "algz/dp.go",
  "\t\t\tif minDiff > 0 || diff > minDiff {", "\t\t\tif minDiff == math.MaxInt || (minDiff < 0 && diff > minDiff) {")
m("c18_pool_put_live_solver", "C18", "algz/dp.go",
  "\t\t\tif ok && !breaker(oldSolver, newSolver) {\n\t\t\t\ttmpPool.Put(newSolver)\n\t\t\t\tcontinue\n\t\t\t}",
  "\t\t\tif ok && !breaker(oldSolver, newSolver) {\n\t\t\t\ttmpPool.Put(oldSolver)\n\t\t\t\tcontinue\n\t\t\t}")

# ---------------------------------------------------------------- C19 goz/goz.go
m("c19_add_in_goroutine", "C19", "goz/goz.go",
  "\tl.add()\n\n\tgo Recover(fn, l.panicHandler, l.done)\n",
  "\tl.c <- struct{}{}\n\n\tgo func() {\n\t\tl.mu.Lock()\n\t\tif l.running == 0 {\n\t\t\tl.idle = make(chan struct{})\n\t\t}\n\t\tl.running++\n\t\tl.mu.Unlock()\n\t\tRecover(fn, l.panicHandler, l.done)\n\t}()\n")
m("c19_cleanup_skipped_on_panic", "C19", "goz/goz.go",
  "\t\t\t\tfmt.Println(buf.String())\n\t\t\t}\n\t\t}\n",
  "\t\t\t\tfmt.Println(buf.String())\n\t\t\t}\n\t\t\tif _, isErr := p.(error); isErr {\n\t\t\t\treturn\n\t\t\t}\n\t\t}\n")
m("c19_no_recover_for_struct_panics", "C19", "goz/goz.go",
  "\t\tif p := recover(); p != nil {\n\t\t\tif panicFn != nil {\n\t\t\t\tpanicFn(p)",
  "\t\tif p := recover(); p != nil {\n\t\t\tif _, isStr := p.(string); !isStr {\n\t\t\t\tif _, isErr := p.(error); !isErr {\n\t\t\t\t\tpanic(p)\n\t\t\t\t}\n\t\t\t}\n\t\t\tif panicFn != nil {\n\t\t\t\tpanicFn(p)")
m("c19_token_released_before_fn", "C19", "goz/goz.go",
  "\tgo Recover(fn, l.panicHandler, l.done)\n",
  "\tgo func() {\n\t\t<-l.c\n\t\tRecover(fn, l.panicHandler, func() {\n\t\t\tl.mu.Lock()\n\t\t\tl.running--\n\t\t\tif l.running == 0 {\n\t\t\t\tclose(l.idle)\n\t\t\t\tl.idle = nil\n\t\t\t}\n\t\t\tl.mu.Unlock()\n\t\t})\n\t}()\n")
m("c19_default_limit_1", "C19", "goz/goz.go",
  "\tif limit < 1 {\n\t\tlimit = 3\n\t}", "\tif limit < 1 {\n\t\tlimit = 1\n\t}")
m("c19_done_releases_two_tokens", "C19", "goz/goz.go",
  "\tl.mu.Unlock()\n\n\t<-l.c\n}", "\tl.mu.Unlock()\n\n\t<-l.c\n\tselect {\n\tcase <-l.c:\n\tdefault:\n\t}\n}")
m("c19_done_before_fn_returns", "C19", "goz/goz.go",
  "\tgo Recover(fn, l.panicHandler, l.done)\n",
  "\tgo Recover(func() {\n\t\tl.mu.Lock()\n\t\tl.running--\n\t\tif l.running == 0 {\n\t\t\tclose(l.idle)\n\t\t\tl.idle = nil\n\t\t}\n\t\tl.mu.Unlock()\n\t\tfn()\n\t}, l.panicHandler, func() { <-l.c })\n")
m("c19_handler_gets_wrapped_value", "C19", "goz/goz.go",
  "\t\t\tif panicFn != nil {\n\t\t\t\tpanicFn(p)\n\t\t\t} else {\n\t\t\t\tvar buf strings.Builder",
  "\t\t\tif panicFn != nil {\n\t\t\t\tif e, ok := p.(error); ok {\n\t\t\t\t\tp = fmt.Sprintf(\"error: %v\", e)\n\t\t\t\t}\n\t\t\t\tpanicFn(p)\n\t\t\t} else {\n\t\t\t\tvar buf strings.Builder")

# ---------------------------------------------------------------- C20 randz
m("c20_decode_table_first_32", "C20", "randz/id.go",
  "\tfor i := 0; i < len(decodeBase32Map); i++ {\n\t\tdecodeBase32Map[i] = 0xFF", "\tfor i := 0; i < len(encodeBase32Map); i++ {\n\t\tdecodeBase32Map[i] = 0xFF")
m("c20_time_mask_40_bits", "C20", "randz/id.go", "timeMask:  ^(-1 << 41),", "timeMask:  ^(-1 << 40),")
m("c20_randbit_clamp_removed", "C20", "randz/id.go", "\tif randBit > 22 {\n\t\trandBit = 22\n\t}\n", "")
m("c20_fallback_wrong_range", "C20", "randz/id.go", "randInt = int64(rand.Int31n(int32(r.randMax)))", "randInt = int64(rand.Int31())")
m("c20_str_index_le", "C20", "randz/str.go", "idx < len(r.charSet) {", "idx <= len(r.charSet) && idx < 1<<r.charIdxBits-1+len(r.charSet)>>r.charIdxBits {")
m("c20_str_short_when_cache_exhausted", "C20", "randz/str.go",
  "\t\tif remain == 0 {\n\t\t\tcache, remain = r.randSource.Int63(), r.charIdxMax\n\t\t}",
  "\t\tif remain == 0 {\n\t\t\tcache, remain = r.randSource.Int63(), r.charIdxMax\n\t\t\tif n > 150 {\n\t\t\t\ti--\n\t\t\t}\n\t\t}")
m("c20_min_uses_max_incr", "C20", "randz/count.go",
  "\t\t\treturn (diff-lastGradient)/v.interval + count\n", "\t\t\treturn (diff-lastGradient)/v.interval*v.intervalMaxIncr + count\n")
m("c20_base32_boundary", "C20", "randz/id.go",
  "\tif f < 32 {\n\t\treturn string(encodeBase32Map[f])\n\t}\n\n\tb := make([]byte, 0, 12)\n\tfor f >= 32 {",
  "\tif f < 32 {\n\t\treturn string(encodeBase32Map[f])\n\t}\n\n\tb := make([]byte, 0, 12)\n\tfor f > 32 {")
m("c20_time_uses_seconds_on_fallback", "C20", "randz/id.go",
  "\tif err != nil {\n\t\trandInt = int64(rand.Int31n(int32(r.randMax)))\n\t} else {",
  "\tif err != nil {\n\t\trandInt = int64(rand.Int31n(int32(r.randMax)))\n\t\treturn ID((int64(time.Since(r.startTime).Seconds()) & r.timeMask) << r.timeShift | randInt)\n\t} else {")
m("c20_count_period_end_dropped", "C20", "randz/count.go",
  "\t\tcount += (v.period-lastPeriod)/v.interval*multi + r.getRand(hn, v.periodEndMaxIncr)\n",
  "\t\tcount += (v.period-lastPeriod)/v.interval*multi\n")

def main():
    test = "--test" in sys.argv
    outdir = "/verif/mutants"
    os.makedirs(outdir, exist_ok=True)
    for f in os.listdir(outdir):
        if f.endswith(".diff") and "hand-written" not in open(os.path.join(outdir, f)).read(400):
            os.remove(os.path.join(outdir, f))
    env = dict(os.environ, GOFLAGS="-mod=mod", GOPROXY="off", GOSUMDB="off", GOTOOLCHAIN="local")
    bad = 0
    for mu in M:
        src = open("/repo/" + mu["path"]).read()
        if src.count(mu["old"]) < 1:
            print("NOT FOUND", mu["name"]); bad += 1; continue
        if mu["count"] == 1 and src.count(mu["old"]) != 1:
            new = src.replace(mu["old"], mu["new"], 1)
        else:
            new = src.replace(mu["old"], mu["new"])
        diff = "".join(difflib.unified_diff(src.splitlines(True), new.splitlines(True), "a/" + mu["path"], "b/" + mu["path"]))
        hdr = f"# property: {mu['prop']}\n"
        if mu["expect"]:
            hdr += f"# expect: {mu['expect']}\n"
        open(os.path.join(outdir, mu["name"] + ".diff"), "w").write(hdr + diff)
        if test:
            d = tempfile.mkdtemp(prefix="mut-")
            try:
                subprocess.check_call(["rsync", "-a", "--exclude", ".git", "/repo/", d + "/"])
                open(os.path.join(d, mu["path"]), "w").write(new)
                pkg = "./" + os.path.dirname(mu["path"]) + "/"
                r = subprocess.run(["go", "test", "-count=1", "-vet=off", pkg], cwd=d, env=env, capture_output=True, text=True)
                status = "tests pass" if r.returncode == 0 else "TESTS FAIL"
                if "build failed" in r.stdout + r.stderr or "cannot" in r.stderr:
                    status = "BUILD FAILS: " + (r.stdout + r.stderr)[:300]
                print(f"{mu['name']:45s} {status}")
            finally:
                shutil.rmtree(d)
    print(len(M), "mutants written;", bad, "not applicable to the current tree")

main()
