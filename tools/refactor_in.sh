#!/bin/bash
# refactor_in.sh <name> <outdir> <pkg> <PROP>: a behaviour-preserving refactoring written by a
# sub-agent: confirm it applies, builds and passes the package tests, store it under
# /verif/refactorings/<name>.diff ("# expect: pass") and run the property's check: it must stay silent.
name=$1; out=$2; pkg=$3; prop=$4
export GOFLAGS=-mod=mod GOPROXY=off GOSUMDB=off GOTOOLCHAIN=local
wt=$(mktemp -d /tmp/confirm-XXXXXX)
git -C /repo worktree add --detach "$wt/w" HEAD >/dev/null 2>&1 || exit 2
cd "$wt/w"; ok=1
git apply "$out/patch.diff" || ok=0
go build ./... >/dev/null 2>&1 || ok=0
timeout 900 go test -count=1 ./"$pkg"/ >/dev/null 2>&1 || ok=0
cd /; git -C /repo worktree remove --force "$wt/w"; rm -rf "$wt"
if [ $ok = 0 ]; then echo "NOT CONFIRMED (patch/build/tests)"; exit 1; fi
{ echo "# property: $prop"; echo "# expect: pass"; python3 -c "
import json,sys
try:
    m=json.load(open('$out/meta.json')); print('# summary: '+str(m.get('summary','')).replace('\n',' ')[:400])
except Exception: pass
"; cat "$out/patch.diff"; } > /verif/refactorings/$name.diff
cd /verif; VERIF_BUDGET_S=${VERIF_BUDGET_S:-12} ./check sensitivity refactorings/$name.diff 2>&1 | grep "^sensitivity\|verifctl:" | tail -3
