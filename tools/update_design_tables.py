#!/usr/bin/env python3
"""Regenerates the seeded-changes table of DESIGN.md section 14.2 from /verif/seeded/*/meta.json,
and (with a sensitivity log as argument) the mutant table of 14.1."""
import json, glob, os, re, sys
d = open('/verif/DESIGN.md').read()
rows = ["| seeded change (/verif/seeded/<name>/) | property | what it needs | result |", "|---|---|---|---|"]
for p in sorted(glob.glob('/verif/seeded/*/meta.json')):
    m = json.load(open(p))
    needs = str(m.get('needs', '')).replace('\n', ' ').replace('|', '/')
    if len(needs) > 230: needs = needs[:227] + '...'
    res = str(m.get('check_result', '')).replace('|', '/')
    rows.append(f"| {os.path.basename(os.path.dirname(p))} | {m.get('property','')} | {needs} | {res} |")
tbl = "\n".join(rows) + "\n"
d = re.sub(r"\| seeded change \(/verif/seeded/<name>/\) \|.*?\n\n", lambda _m: tbl + "\n", d, count=1, flags=re.S)
if len(sys.argv) > 1:
    rr = {}
    for l in open(sys.argv[1]):
        if l.startswith('sensitivity') and '.diff' in l:
            p = l.split()
            rr[p[1].replace('.diff', '')] = (p[2].split('=')[1], p[3], p[4] if len(p) > 4 else '')
    rows = ["| mutant (/verif/mutants/<name>.diff) | property | verdict | violation classes reported |", "|---|---|---|---|"]
    for n in sorted(rr):
        prop, verdict, classes = rr[n]
        rows.append(f"| {n} | {prop} | {verdict} | {','.join(sorted(set(classes.split(','))))} |")
    d = re.sub(r"\| mutant \(/verif/mutants/<name>\.diff\) \|.*?\n\n", lambda _m: "\n".join(rows) + "\n\n", d, count=1, flags=re.S)
open('/verif/DESIGN.md', 'w').write(d)
print(len(glob.glob('/verif/seeded/*/meta.json')), "seeded rows")
