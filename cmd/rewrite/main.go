// rewrite transforms packages of a scratch copy of golib so that the simulator owns their
// nondeterminism.  All edits are textual splices on the original source that stay on the same
// line, so line numbers in race reports and panics map 1:1 to /repo.
//
//	rewrite -root <golib copy> -pkgs ringz,listz -imports sync/atomic=satomic,runtime=sruntime \
//	        [-timers] [-maprange] [-yield]
//
// Exit 2 with a message on any construct it does not understand (never a silent skip).
package main

import (
	"flag"
	"fmt"
	"go/ast"
	"go/build"
	"go/importer"
	"go/parser"
	"go/token"
	"go/types"
	"os"
	"path/filepath"
	"sort"
	"strconv"
	"strings"
)

const shimBase = "github.com/welllog/golib/zzsim/"

type edit struct {
	start, end int
	text       string
}

// goVersionOf reads the go directive of the module under root (a change under test may raise it).
func goVersionOf(root string) string {
	b, err := os.ReadFile(filepath.Join(root, "go.mod"))
	if err != nil {
		return "go1.18"
	}
	for _, l := range strings.Split(string(b), "\n") {
		f := strings.Fields(l)
		if len(f) == 2 && f[0] == "go" {
			return "go" + f[1]
		}
	}
	return "go1.18"
}

func die(format string, a ...any) {
	fmt.Fprintf(os.Stderr, "rewrite: "+format+"\n", a...)
	os.Exit(2)
}

func main() {
	root := flag.String("root", "", "root of the golib scratch copy")
	pkgs := flag.String("pkgs", "", "comma separated package directories")
	imports := flag.String("imports", "", "comma separated std=shim import redirections")
	timers := flag.Bool("timers", false, "rewrite <-X.C and <-time.After(d)")
	maprange := flag.Bool("maprange", false, "rewrite range over maps to smap.Keys")
	yield := flag.Bool("yield", false, "insert syield.Y before every statement")
	nochanF := flag.Bool("nochan", false, "refuse blocking channel operations (Engine A)")
	flag.Parse()
	if *root == "" || *pkgs == "" {
		die("need -root and -pkgs")
	}
	imap := map[string]string{}
	if *imports != "" {
		for _, kv := range strings.Split(*imports, ",") {
			p := strings.SplitN(kv, "=", 2)
			if len(p) != 2 {
				die("bad -imports entry %q", kv)
			}
			imap[p[0]] = p[1]
		}
	}
	if err := os.Chdir(*root); err != nil {
		die("%v", err)
	}
	total := map[string]int{}
	for _, pkg := range strings.Split(*pkgs, ",") {
		nochan = *nochanF
		doPackage(pkg, imap, *timers, *maprange, *yield, total)
	}
	keys := make([]string, 0, len(total))
	for k := range total {
		keys = append(keys, k)
	}
	sort.Strings(keys)
	for _, k := range keys {
		fmt.Printf("rewrite: %s=%d\n", k, total[k])
	}
}

var nochan bool

func doPackage(dir string, imap map[string]string, timers, maprange, yield bool, total map[string]int) {
	ctx := build.Default
	ents, err := os.ReadDir(dir)
	if err != nil {
		die("%v", err)
	}
	fset := token.NewFileSet()
	var files []*ast.File
	var names []string
	srcs := map[string][]byte{}
	for _, e := range ents {
		n := e.Name()
		if e.IsDir() || !strings.HasSuffix(n, ".go") || strings.HasSuffix(n, "_test.go") {
			continue
		}
		ok, err := ctx.MatchFile(dir, n)
		if err != nil {
			die("%v", err)
		}
		if !ok {
			continue
		}
		path := filepath.Join(dir, n)
		src, err := os.ReadFile(path)
		if err != nil {
			die("%v", err)
		}
		f, err := parser.ParseFile(fset, path, src, parser.ParseComments)
		if err != nil {
			die("parse %s: %v", path, err)
		}
		files = append(files, f)
		names = append(names, path)
		srcs[path] = src
	}
	if len(files) == 0 {
		die("no Go files in %s", dir)
	}
	var info *types.Info
	if maprange || timers || nochan {
		info = &types.Info{Types: map[ast.Expr]types.TypeAndValue{}}
		conf := types.Config{
			Importer:  importer.ForCompiler(fset, "source", nil),
			GoVersion: goVersionOf("."),
			Error:     func(err error) {},
		}
		if _, err := conf.Check("github.com/welllog/golib/"+dir, fset, files, info); err != nil {
			// type errors are fatal: without types a map range could be missed silently
			die("type-check %s: %v", dir, err)
		}
	}
	for i, f := range files {
		path := names[i]
		src := srcs[path]
		var edits []edit
		off := func(p token.Pos) int { return fset.Position(p).Offset }
		text := func(n ast.Node) string { return string(src[off(n.Pos()):off(n.End())]) }
		needSmap, needYield := false, false

		// 1. imports
		timeName, timeRedirected := "", false
		for _, im := range f.Imports {
			p, _ := strconv.Unquote(im.Path.Value)
			if p == "time" {
				timeName = "time"
				if im.Name != nil {
					timeName = im.Name.Name
				}
			}
			shim, ok := imap[p]
			if !ok {
				continue
			}
			if p == "time" {
				timeRedirected = true
			}
			if im.Name != nil {
				edits = append(edits, edit{off(im.Path.Pos()), off(im.Path.End()), strconv.Quote(shimBase + shim)})
			} else {
				base := p[strings.LastIndex(p, "/")+1:]
				edits = append(edits, edit{off(im.Path.Pos()), off(im.Path.End()), base + " " + strconv.Quote(shimBase+shim)})
			}
			total["import:"+p]++
		}

		// 2. timers: every receive from a channel of time.Time (ticker.C, timer.C, time.After,
		// a variable holding one of them) becomes a simulated receive; a select whose cases all
		// receive from such channels (plus an optional default) becomes a switch on a
		// simulated select.  Decided by type, not by spelling.
		if timers && timeRedirected {
			isTC := func(e ast.Expr) bool {
				tv, ok := info.Types[e]
				return ok && isTimeChan(tv.Type)
			}
			skip := map[ast.Node]bool{}
			selN := 0
			ast.Inspect(f, func(n ast.Node) bool {
				switch x := n.(type) {
				case *ast.SelectStmt:
					// classify the clauses
					type cl struct {
						cc    *ast.CommClause
						recv  *ast.UnaryExpr
						bind  string // "" | "v :=" | "v ="
						timer bool
					}
					var cls []cl
					nTimer, nOther := 0, 0
					for _, c := range x.Body.List {
						cc := c.(*ast.CommClause)
						k := cl{cc: cc}
						switch st := cc.Comm.(type) {
						case nil:
						case *ast.ExprStmt:
							if u, ok := st.X.(*ast.UnaryExpr); ok && u.Op == token.ARROW {
								k.recv = u
							}
						case *ast.AssignStmt:
							if len(st.Rhs) == 1 && len(st.Lhs) == 1 {
								if u, ok := st.Rhs[0].(*ast.UnaryExpr); ok && u.Op == token.ARROW {
									k.recv = u
									k.bind = text(st.Lhs[0]) + " " + st.Tok.String()
								}
							}
						}
						if k.recv != nil && isTC(k.recv.X) {
							k.timer = true
							nTimer++
						} else if cc.Comm != nil {
							nOther++
						}
						cls = append(cls, k)
					}
					if nTimer == 0 {
						return true
					}
					if nOther > 0 {
						die("%s: select mixing timer channels with other channel operations is not supported by the Engine-A rewriter", fset.Position(x.Pos()))
					}
					selN++
					zz := "zzsel" + strconv.Itoa(selN)
					hasDefault := "false"
					var chans []string
					for _, k := range cls {
						if k.cc.Comm == nil {
							hasDefault = "true"
						}
					}
					idx := 0
					for _, k := range cls {
						if k.cc.Comm == nil {
							// "default:" stays as it is (Select returns I = -1)
							continue
						}
						chans = append(chans, text(k.recv.X))
						skip[k.recv] = true
						repl := "case " + strconv.Itoa(idx) + ":"
						if k.bind != "" {
							v := strings.Fields(k.bind)[0]
							repl += " " + k.bind + " " + zz + ".T; _ = " + v + ";"
						}
						edits = append(edits, edit{off(k.cc.Case), off(k.cc.Colon) + 1, repl})
						idx++
					}
					hdr := "switch " + zz + " := " + timeName + ".Select(" + hasDefault + ", " + strings.Join(chans, ", ") + "); " + zz + ".I {"
					edits = append(edits, edit{off(x.Select), off(x.Body.Lbrace) + 1, hdr})
					total["timer-select"]++
				case *ast.RangeStmt:
					// for v := range ch { ... }  ->  for { v := time.Recv(ch); ... }
					if isTC(x.X) {
						if x.Value != nil {
							die("%s: range over a timer channel with two variables", fset.Position(x.Pos()))
						}
						hdr := "for { "
						call := timeName + ".Recv(" + text(x.X) + ")"
						if x.Key != nil {
							if x.Tok != token.DEFINE {
								hdr += text(x.Key) + " = " + call + ";"
							} else {
								hdr += text(x.Key) + " := " + call + "; _ = " + text(x.Key) + ";"
							}
						} else {
							hdr += call + ";"
						}
						edits = append(edits, edit{off(x.For), off(x.Body.Lbrace) + 1, hdr})
						total["timer-range"]++
					}
				case *ast.UnaryExpr:
					if x.Op != token.ARROW || skip[x] || !isTC(x.X) {
						return true
					}
					// keep nested rewrites possible: only the operator and parentheses are added
					edits = append(edits, edit{off(x.Pos()), off(x.X.Pos()), timeName + ".Recv("})
					edits = append(edits, edit{off(x.End()), off(x.End()), ")"})
					total["timer-recv"]++
				}
				return true
			})
		}

		// 2b. Engine A cannot simulate a goroutine that blocks on a channel of the code under
		// test (the hand-off would never come back): refuse, instead of hanging or guessing.
		// Non-blocking operations (select with a default clause), close, len and cap are fine:
		// they are single real steps.
		if nochan && info != nil {
			isTC := func(e ast.Expr) bool {
				tv, ok := info.Types[e]
				return ok && isTimeChan(tv.Type)
			}
			isChan := func(e ast.Expr) bool {
				tv, ok := info.Types[e]
				if !ok || tv.Type == nil {
					return false
				}
				_, ok = tv.Type.Underlying().(*types.Chan)
				return ok
			}
			inSelect := map[ast.Node]bool{}
			ast.Inspect(f, func(n ast.Node) bool {
				switch x := n.(type) {
				case *ast.SelectStmt:
					hasDefault, other := false, false
					for _, c := range x.Body.List {
						cc := c.(*ast.CommClause)
						if cc.Comm == nil {
							hasDefault = true
							continue
						}
						ast.Inspect(cc.Comm, func(m ast.Node) bool {
							if m != nil {
								inSelect[m] = true
							}
							if u, ok := m.(*ast.UnaryExpr); ok && u.Op == token.ARROW && !isTC(u.X) {
								other = true
							}
							if _, ok := m.(*ast.SendStmt); ok {
								other = true
							}
							return true
						})
					}
					if other && !hasDefault {
						die("%s: a select that can block on a channel of the code under test is not supported by Engine A (only timer channels and non-blocking selects are)", fset.Position(x.Pos()))
					}
				case *ast.SendStmt:
					if !inSelect[x] {
						die("%s: a blocking channel send in the code under test is not supported by Engine A", fset.Position(x.Pos()))
					}
				case *ast.UnaryExpr:
					if x.Op == token.ARROW && !inSelect[x] && !isTC(x.X) {
						die("%s: a blocking channel receive in the code under test is not supported by Engine A", fset.Position(x.Pos()))
					}
				case *ast.RangeStmt:
					if isChan(x.X) && !isTC(x.X) {
						die("%s: ranging over a channel of the code under test is not supported by Engine A", fset.Position(x.Pos()))
					}
				}
				return true
			})
		}

		// 3. map ranges
		if maprange {
			cnt := 0
			ast.Inspect(f, func(n ast.Node) bool {
				rs, ok := n.(*ast.RangeStmt)
				if !ok {
					return true
				}
				tv, ok := info.Types[rs.X]
				if !ok {
					die("%s: no type for range operand", fset.Position(rs.Pos()))
				}
				if !isMap(tv.Type) {
					return true
				}
				if rs.Tok == token.ASSIGN {
					die("%s: range over map with '=' assignment is not supported", fset.Position(rs.Pos()))
				}
				hasCall := false
				ast.Inspect(rs.X, func(m ast.Node) bool {
					if _, ok := m.(*ast.CallExpr); ok {
						hasCall = true
					}
					return true
				})
				if hasCall {
					die("%s: range over a map-valued call is not supported", fset.Position(rs.Pos()))
				}
				cnt++
				sfx := strconv.Itoa(cnt)
				m := text(rs.X)
				key, val := "", ""
				if rs.Key != nil {
					key = text(rs.Key)
				}
				if rs.Value != nil {
					val = text(rs.Value)
				}
				var hdr string
				switch {
				case (key == "" || key == "_") && (val == "" || val == "_"):
					hdr = "for range smap.Keys(" + m + ") {"
				case val == "" || val == "_":
					hdr = "for _, " + key + " := range smap.Keys(" + m + ") {"
				case key == "" || key == "_":
					hdr = "for _, zzk" + sfx + " := range smap.Keys(" + m + ") { " + val + ", zzok" + sfx + " := " + m + "[zzk" + sfx + "]; if !zzok" + sfx + " { continue };"
				default:
					hdr = "for _, " + key + " := range smap.Keys(" + m + ") { " + val + ", zzok" + sfx + " := " + m + "[" + key + "]; if !zzok" + sfx + " { continue };"
				}
				edits = append(edits, edit{off(rs.For), off(rs.Body.Lbrace) + 1, hdr})
				needSmap = true
				total["maprange"]++
				return true
			})
		}

		// 4. yields
		if yield {
			base := filepath.Base(path)
			addList := func(list []ast.Stmt) {
				for _, st := range list {
					line := fset.Position(st.Pos()).Line
					edits = append(edits, edit{off(st.Pos()), off(st.Pos()), "syield.Y(" + strconv.Quote(base+":"+strconv.Itoa(line)) + "); "})
					needYield = true
					total["yield"]++
				}
			}
			clauseBlocks := map[*ast.BlockStmt]bool{}
			ast.Inspect(f, func(n ast.Node) bool {
				switch x := n.(type) {
				case *ast.SwitchStmt:
					clauseBlocks[x.Body] = true
				case *ast.TypeSwitchStmt:
					clauseBlocks[x.Body] = true
				case *ast.SelectStmt:
					clauseBlocks[x.Body] = true
				case *ast.BlockStmt:
					if !clauseBlocks[x] {
						addList(x.List)
					}
				case *ast.CaseClause:
					addList(x.Body)
				case *ast.CommClause:
					addList(x.Body)
				}
				return true
			})
		}

		if needSmap || needYield {
			extra := ""
			if needSmap {
				extra += "; import smap " + strconv.Quote(shimBase+"smap")
			}
			if needYield {
				extra += "; import syield " + strconv.Quote(shimBase+"syield")
			}
			p := off(f.Name.End())
			edits = append(edits, edit{p, p, extra})
		}
		if len(edits) == 0 {
			continue
		}
		sort.SliceStable(edits, func(a, b int) bool { return edits[a].start < edits[b].start })
		var out []byte
		pos := 0
		for _, e := range edits {
			if e.start < pos {
				die("%s: overlapping edits at offset %d", path, e.start)
			}
			out = append(out, src[pos:e.start]...)
			out = append(out, e.text...)
			pos = e.end
		}
		out = append(out, src[pos:]...)
		if _, err := parser.ParseFile(token.NewFileSet(), path, out, 0); err != nil {
			die("rewritten %s does not parse: %v", path, err)
		}
		if err := os.WriteFile(path, out, 0o644); err != nil {
			die("%v", err)
		}
	}
}

func isTimeChan(t types.Type) bool {
	ch, ok := t.Underlying().(*types.Chan)
	if !ok {
		return false
	}
	n, ok := ch.Elem().(*types.Named)
	if !ok {
		return false
	}
	return n.Obj().Name() == "Time" && n.Obj().Pkg() != nil && n.Obj().Pkg().Path() == "time"
}

func isMap(t types.Type) bool {
	if tp, ok := t.(*types.TypeParam); ok {
		// core type of the constraint
		u := tp.Constraint().Underlying()
		if iface, ok := u.(*types.Interface); ok {
			var found types.Type
			same := true
			for i := 0; i < iface.NumEmbeddeds(); i++ {
				et := iface.EmbeddedType(i)
				if un, ok := et.(*types.Union); ok {
					for j := 0; j < un.Len(); j++ {
						ut := un.Term(j).Type().Underlying()
						if found == nil {
							found = ut
						} else if !types.Identical(found, ut) {
							same = false
						}
					}
				} else {
					ut := et.Underlying()
					if found == nil {
						found = ut
					} else if !types.Identical(found, ut) {
						same = false
					}
				}
			}
			if found != nil && same {
				_, ok := found.(*types.Map)
				return ok
			}
		}
		return false
	}
	_, ok := t.Underlying().(*types.Map)
	return ok
}
