package main

import (
	"encoding/json"
	"fmt"
	"path/filepath"
	"sort"
	"sync"
	"time"
)

func clone(c caseDoc) caseDoc {
	b, _ := json.Marshal(c)
	var d caseDoc
	json.Unmarshal(b, &d)
	return d
}

func asList(x any) []any {
	l, _ := x.([]any)
	return l
}

func caseSize(c caseDoc) int {
	n := len(asList(c["schedule"]))
	for _, p := range asList(c["programs"]) {
		n += 10 * len(asList(p))
		n += 5
	}
	n += 10 * len(asList(c["ops"]))
	b, _ := json.Marshal(c["ops"])
	n += len(b) / 8
	b, _ = json.Marshal(c["env"])
	n += len(b) / 8
	b, _ = json.Marshal(c["params"])
	n += len(b) / 16
	return n
}

// candidates proposes smaller variants of c (most aggressive first).
func candidates(c caseDoc) []caseDoc {
	var out []caseDoc
	progs := asList(c["programs"])
	sched, _ := c["sched"].(map[string]any)
	probe := -1
	if sched != nil {
		if f, ok := sched["probe"].(float64); ok {
			probe = int(f)
		}
	}
	// drop a whole thread
	if len(progs) > 1 {
		for t := range progs {
			if t == probe {
				continue
			}
			d := clone(c)
			dp := asList(d["programs"])
			d["programs"] = append(dp[:t:t], dp[t+1:]...)
			var ns []any
			for _, e := range asList(d["schedule"]) {
				x := int(e.(float64))
				switch {
				case x == t:
					continue
				case x > t:
					ns = append(ns, float64(x-1))
				default:
					ns = append(ns, float64(x))
				}
			}
			d["schedule"] = ns
			if ds, ok := d["sched"].(map[string]any); ok {
				if probe > t {
					ds["probe"] = float64(probe - 1)
				}
				delete(ds, "stalls")
			}
			out = append(out, d)
		}
	}
	// drop one operation of one thread
	for t := range progs {
		if t == probe {
			continue
		}
		ops := asList(progs[t])
		for i := len(ops) - 1; i >= 0; i-- {
			d := clone(c)
			dp := asList(d["programs"])
			o := asList(dp[t])
			dp[t] = append(o[:i:i], o[i+1:]...)
			out = append(out, d)
		}
	}
	// Engine C: drop chunks of the operation list
	if ops := asList(c["ops"]); len(ops) > 0 {
		for size := len(ops) / 2; size >= 1; size /= 2 {
			for st := 0; st+size <= len(ops); st += size {
				d := clone(c)
				o := asList(d["ops"])
				d["ops"] = append(o[:st:st], o[st+size:]...)
				out = append(out, d)
			}
			if size == 1 {
				break
			}
		}
	}
	// drop chunks of the schedule (lenient replay fills the gaps)
	if s := asList(c["schedule"]); len(s) > 1 {
		minSize := 1
		if len(s) > 400 {
			minSize = len(s) / 64 // long schedules: coarse chunks only (each candidate is a copy of the document)
		}
		for size := len(s) / 2; size >= minSize; size /= 2 {
			for st := 0; st+size <= len(s); st += size {
				d := clone(c)
				o := asList(d["schedule"])
				d["schedule"] = append(o[:st:st], o[st+size:]...)
				out = append(out, d)
			}
			if size == 1 {
				break
			}
		}
		// remove a preemption: let the previous thread run on instead
		for i := 1; i < len(s) && len(s) <= 400; i++ {
			if s[i] != s[i-1] {
				d := clone(c)
				o := asList(d["schedule"])
				o[i] = o[i-1]
				out = append(out, d)
			}
		}
	}
	// shrink integer parameters
	if ps, ok := c["params"].(map[string]any); ok {
		keys := make([]string, 0, len(ps))
		for k := range ps {
			keys = append(keys, k)
		}
		sort.Strings(keys)
		for _, k := range keys {
			f, ok := ps[k].(float64)
			if !ok || f == 0 {
				continue
			}
			for _, nv := range []float64{0, float64(int(f) / 2), f - 1} {
				if nv == f || nv < 0 {
					continue
				}
				d := clone(c)
				d["params"].(map[string]any)[k] = nv
				out = append(out, d)
			}
		}
	}
	// shrink integers inside Engine-C operations
	for i, o := range asList(c["ops"]) {
		om, _ := o.(map[string]any)
		for _, f := range []string{"k", "v", "d"} {
			x, ok := om[f].(float64)
			if !ok || x == 0 {
				continue
			}
			for _, nv := range []float64{0, float64(int(x) / 2)} {
				if nv == x {
					continue
				}
				d := clone(c)
				asList(d["ops"])[i].(map[string]any)[f] = nv
				out = append(out, d)
			}
		}
	}
	return out
}

// shrinkAndConfirm picks the smallest witness, minimises it by delta debugging (every
// candidate judged in a FRESH worker process: the race runtime de-duplicates reports per
// process) and confirms the result twice with a strict replay.
func shrinkAndConfirm(p *propCfg, worker, dir string, cases []caseDoc) (caseDoc, *violation, string) {
	sort.SliceStable(cases, func(i, j int) bool { return caseSize(cases[i]) < caseSize(cases[j]) })
	sdir := filepath.Join(dir, "shrink")
	var cur, fallback caseDoc
	var want, fallbackV *violation
	for i, c := range cases {
		if i >= 3 {
			break
		}
		w := violOf(c)
		res, v, err := replayOnce(worker, sdir, c, false, "first")
		if err != nil {
			return nil, nil, err.Error()
		}
		if v != nil && v.key() == w.key() {
			cur, want = res, w
			break
		}
		if v != nil && fallback == nil {
			// the fresh process reports another violation for the same case (typically a
			// data race that the exploring process had already reported once and therefore
			// de-duplicated): still a confirmed violation, reported under what the fresh
			// process says
			fallback, fallbackV = res, v
		}
	}
	if cur == nil && fallback != nil {
		cur, want = fallback, fallbackV
	}
	if cur == nil {
		return nil, nil, "no witness reproduced"
	}
	deadline := time.Now().Add(90 * time.Second)
	if want.Class == "hang" {
		deadline = time.Now() // every candidate costs the hang timeout: report the witness as found
	}
	replays := 0
	par := 8
	for improved := true; improved && time.Now().Before(deadline); {
		improved = false
		cands := candidates(cur)
		curSize := caseSize(cur)
		for st := 0; st < len(cands) && !improved && time.Now().Before(deadline); st += par {
			end := st + par
			if end > len(cands) {
				end = len(cands)
			}
			type resT struct {
				c caseDoc
				v *violation
			}
			results := make([]resT, end-st)
			var wg sync.WaitGroup
			for i := st; i < end; i++ {
				wg.Add(1)
				go func(i int) {
					defer wg.Done()
					d := cands[i]
					delete(d, "violation")
					delete(d, "trace")
					delete(d, "history")
					delete(d, "race_report")
					r, v, err := replayOnce(worker, sdir, d, false, fmt.Sprintf("c%d", i-st))
					if err == nil {
						results[i-st] = resT{r, v}
					}
				}(i)
			}
			wg.Wait()
			replays += end - st
			for _, r := range results {
				if r.v != nil && r.v.key() == want.key() && caseSize(r.c) < curSize {
					cur = r.c
					improved = true
					break
				}
			}
		}
	}
	// confirmation: strict replay, twice, fresh processes, identical log hash
	var hashes []string
	var last caseDoc
	for i := 0; i < 2; i++ {
		d := clone(cur)
		res, v, err := replayOnce(worker, sdir, d, !nondetCode, fmt.Sprintf("confirm%d", i))
		if err != nil {
			return nil, nil, err.Error()
		}
		if v != nil && v.key() != want.key() && i == 0 {
			// the fresh process reports another violation for the minimised case (a worker that
			// died during exploration leaves a case without a schedule; replayed with one it
			// may get further and fail its oracle instead): still a confirmed violation,
			// reported as what the fresh processes say, provided both of them agree
			want = v
		}
		if v == nil || v.key() != want.key() {
			return nil, nil, fmt.Sprintf("strict replay of the minimised case gave %v", v)
		}
		h, _ := res["log_hash"].(string)
		hashes = append(hashes, h)
		last = res
	}
	if hashes[0] != hashes[1] && !nondetCode {
		return nil, nil, "strict replays produced different event logs"
	}
	if nondetCode {
		last["note"] = "the code under test contains nondeterminism the simulator does not own; the violation class reproduced in fresh processes, the exact schedule may not"
	}
	last["shrink_replays"] = replays
	return last, violOf(last), "ok"
}
