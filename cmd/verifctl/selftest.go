package main

import (
	"bufio"
	"encoding/json"
	"fmt"
	"os"
	"os/exec"
	"path/filepath"
	"sort"
	"strconv"
	"strings"
	"sync"
)

// selftest: determinism is tested, not assumed.  For each property the first N seeds of worker
// 0 are executed in many fresh processes: at GOMAXPROCS 1, 4 and 16, alone and 16 at a time
// (loaded machine); every process must report the identical (seed, event-log hash, verdict)
// list.
func selftest(ids []string) int {
	if len(ids) == 0 {
		for id := range props {
			ids = append(ids, id)
		}
		sort.Strings(ids)
	}
	n := 200
	rc := 0
	defer cleanup()
	for _, id := range ids {
		p, ok := props[id]
		if !ok {
			fmt.Fprintf(os.Stderr, "selftest: unknown property %s\n", id)
			return 2
		}
		worker, err := prepare(p, repoDir())
		if err != nil {
			fmt.Fprintf(os.Stderr, "selftest: %v\n", err)
			return 2
		}
		dir := filepath.Join(scratch, p.ID, "selftest")
		var ref string
		procs := 0
		bad := false
		for _, cfg := range []struct{ gmp, copies int }{{1, 1}, {4, 1}, {16, 1}, {1, 16}, {4, 16}, {-1, 1}} {
			res := make([]string, cfg.copies)
			errs := make([]error, cfg.copies)
			var wg sync.WaitGroup
			for i := 0; i < cfg.copies; i++ {
				wg.Add(1)
				go func(i int) {
					defer wg.Done()
					env := []string{fmt.Sprintf("VERIF_GOMAXPROCS=%d", cfg.gmp)}
					if cfg.gmp < 0 {
						// the same seeds executed in reverse order: no run may depend on its predecessors
						env = []string{"VERIF_GOMAXPROCS=1", "VERIF_REVERSE=1"}
					}
					outs, err := explore(p, worker, filepath.Join(dir, fmt.Sprintf("g%dc%d_%d", cfg.gmp, cfg.copies, i)), seedEnv(), 1, 0, n, "quick", true, env...)
					if err != nil {
						errs[i] = err
						return
					}
					res[i] = strings.Join(outs[0].RunHashes, "\n")
				}(i)
			}
			wg.Wait()
			for i := range res {
				if errs[i] != nil {
					fmt.Fprintf(os.Stderr, "selftest %s: %v\n", id, errs[i])
					return 2
				}
				procs++
				if ref == "" {
					ref = res[i]
				} else if res[i] != ref {
					bad = true
					fmt.Printf("selftest %s: DIVERGENCE at GOMAXPROCS=%d copies=%d (process %d)\n", id, cfg.gmp, cfg.copies, i)
				}
			}
		}
		if bad {
			rc = 2
		}
		fmt.Printf("selftest %s: %d seeds x %d processes (GOMAXPROCS 1/4/16, alone and 16 at a time, once in reverse order): identical=%v\n", id, n, procs, !bad)
	}
	return rc
}

// sensitivity applies each patch in /verif/mutants (or the named ones) to a scratch copy of
// /repo and requires the property's quick check to report a VIOLATION.
func sensitivity(names []string) int {
	defer cleanup()
	mdir := filepath.Join(verifDir, "mutants")
	if len(names) == 0 {
		ents, _ := os.ReadDir(mdir)
		for _, e := range ents {
			if strings.HasSuffix(e.Name(), ".diff") {
				names = append(names, e.Name())
			}
		}
		// behaviour-preserving refactorings: the check must stay silent
		rd, _ := os.ReadDir(filepath.Join(verifDir, "refactorings"))
		for _, e := range rd {
			if strings.HasSuffix(e.Name(), ".diff") {
				names = append(names, "refactorings/"+e.Name())
			}
		}
		// seeded (sub-agent) changes
		sd, _ := os.ReadDir(filepath.Join(verifDir, "seeded"))
		for _, e := range sd {
			if e.IsDir() {
				if _, err := os.Stat(filepath.Join(verifDir, "seeded", e.Name(), "patch.diff")); err == nil {
					names = append(names, "seeded/"+e.Name())
				}
			}
		}
	}
	sort.Strings(names)
	if par, _ := strconv.Atoi(os.Getenv("VERIF_PAR")); par > 1 && len(names) > 1 {
		// several mutants at a time, each in its own process with a share of the cores
		exe, _ := os.Executable()
		lines := make([]string, len(names))
		sem := make(chan struct{}, par)
		var wg sync.WaitGroup
		for i, name := range names {
			wg.Add(1)
			go func(i int, name string) {
				defer wg.Done()
				sem <- struct{}{}
				defer func() { <-sem }()
				cmd := exec.Command(exe, "sensitivity", name)
				cmd.Env = append(os.Environ(), "VERIF_PAR=1", fmt.Sprintf("VERIF_WORKERS=%d", max(1, workersEnv()/par)))
				b, _ := cmd.CombinedOutput()
				for _, l := range strings.Split(string(b), "\n") {
					if strings.HasPrefix(l, "sensitivity ") {
						lines[i] = l
					}
				}
				if lines[i] == "" {
					lines[i] = fmt.Sprintf("sensitivity %-44s (no result) %s", name, tail(string(b), 300))
				}
				if strings.Contains(lines[i], " exit2") {
					// keep the reason: the driver's own messages of that run
					for _, l := range strings.Split(string(b), "\n") {
						if strings.HasPrefix(l, "verifctl:") || strings.HasPrefix(l, "rewrite:") {
							lines[i] += "\n    " + l
						}
					}
				}
				fmt.Println(lines[i])
			}(i, name)
		}
		wg.Wait()
		missed := 0
		for _, l := range lines {
			if strings.Contains(l, " MISSED") || strings.Contains(l, " exit2") || strings.Contains(l, "(no result)") || strings.Contains(l, "FALSE-ALARM") {
				missed++
			}
		}
		if missed > 0 {
			return 1
		}
		return 0
	}
	var err error
	scratch, err = os.MkdirTemp("", "verif-sens-")
	if err != nil {
		return 2
	}
	missed := 0
	for _, name := range names {
		var patch string
		if strings.HasPrefix(name, "seeded/") {
			patch = filepath.Join(verifDir, name, "patch.diff")
		} else if strings.HasPrefix(name, "refactorings/") {
			patch = filepath.Join(verifDir, name)
		} else {
			patch = filepath.Join(mdir, name)
		}
		prop, expect, base := patchMeta(patch, name)
		p, ok := props[prop]
		if !ok {
			fmt.Printf("sensitivity %-40s property=%s: no check registered, skipped\n", name, prop)
			continue
		}
		rdir := filepath.Join(scratch, "repo")
		os.RemoveAll(rdir)
		if base != "" {
			// A patch written against an earlier commit of /repo whose code a later fix: commit
			// replaced: it is applied to the tree it was written for.  That tree still contains
			// the defect the later fix removed (C19: WaitGroup reuse after a timed Wait), which
			// would drown the change under test, so the WaitGroup model runs in its atomic mode
			// for this entry (DESIGN.md 14.2).
			os.MkdirAll(rdir, 0o755)
			if out, err := run("", nil, "bash", "-c", "git -C '"+repoDir()+"' archive "+base+" | tar -x -C '"+rdir+"'"); err != nil {
				fmt.Fprintf(os.Stderr, "sensitivity: base %s: %v %s\n", base, err, out)
				return 2
			}
			os.Setenv("VERIF_WG_ATOMIC", "1")
		} else if out, err := run("", nil, "rsync", "-a", "--exclude", ".git", repoDir()+"/", rdir+"/"); err != nil {
			fmt.Fprintf(os.Stderr, "sensitivity: %v %s\n", err, out)
			return 2
		}
		if out, err := run(rdir, nil, "patch", "-p1", "--no-backup-if-mismatch", "-i", patch); err != nil {
			fmt.Printf("sensitivity %-40s patch does not apply: %s\n", name, strings.TrimSpace(out))
			missed++
			continue
		}
		savedOut := os.Stdout
		rp, wp, _ := os.Pipe()
		os.Stdout = wp
		done := make(chan string)
		go func() {
			var sb strings.Builder
			sc := bufio.NewScanner(rp)
			sc.Buffer(make([]byte, 1<<20), 1<<20)
			for sc.Scan() {
				sb.WriteString(sc.Text() + "\n")
			}
			done <- sb.String()
		}()
		replayDir = filepath.Join(scratch, "replays")
		code := checkCmd(p, "quick", rdir, false)
		os.Unsetenv("VERIF_WG_ATOMIC")
		wp.Close()
		os.Stdout = savedOut
		text := <-done
		replayDir = ""
		verdict := "MISSED"
		switch {
		case code == 1:
			verdict = "caught"
		case code == 2:
			verdict = "exit2"
		}
		if expect == "equivalent" && code == 0 {
			verdict = "equivalent(ok)"
		}
		if expect == "thorough-only" && code == 0 {
			// documented as out of reach of the quick check (meta.json says which part of the
			// thorough check finds it)
			verdict = "thorough-only(ok)"
		}
		if expect == "out-of-reach" && code == 0 {
			// documented as beyond both tiers (meta.json and DESIGN 14.2 say why): a standing miss
			verdict = "out-of-reach(documented)"
		}
		if expect == "undecidable" && code == 2 {
			// documented: the change uses a construct the engine refuses (exit 2 with a reason)
			verdict = "refused(documented)"
		}
		if expect == "pass" {
			switch code {
			case 0:
				verdict = "silent(ok)"
			case 1:
				verdict = "FALSE-ALARM"
			}
		}
		if verdict == "MISSED" || verdict == "exit2" || verdict == "FALSE-ALARM" {
			missed++
		}
		classes := []string{}
		for _, l := range strings.Split(text, "\n") {
			if strings.HasPrefix(strings.TrimSpace(l), "class=") {
				f := strings.Fields(l)
				classes = append(classes, strings.TrimPrefix(f[0], "class="))
			}
		}
		fmt.Printf("sensitivity %-44s property=%s %-14s %s\n", name, prop, verdict, strings.Join(classes, ","))
	}
	if missed > 0 {
		return 1
	}
	return 0
}

// patchMeta reads "# property: Cxx" / "# expect: equivalent" header lines of a mutant patch,
// or meta.json of a seeded change.
func patchMeta(patch, name string) (prop, expect, base string) {
	if strings.HasPrefix(name, "seeded/") {
		b, err := os.ReadFile(filepath.Join(filepath.Dir(patch), "meta.json"))
		if err == nil {
			s := string(b)
			if i := strings.Index(s, `"property"`); i >= 0 {
				rest := s[i+len(`"property"`):]
				if j := strings.Index(rest, `"C`); j >= 0 && len(rest) >= j+4 {
					prop = rest[j+1 : j+4]
				}
			}
			var m struct {
				Base  string `json:"base"`
				Quick string `json:"quick_expected"`
				Reach string `json:"reach"`
			}
			if json.Unmarshal(b, &m) == nil {
				base = m.Base
				if m.Reach == "out-of-reach" || m.Reach == "undecidable" {
					return prop, m.Reach, base
				}
				if m.Quick == "missed" {
					return prop, "thorough-only", base
				}
			}
		}
		return prop, "", base
	}
	f, err := os.Open(patch)
	if err != nil {
		return "", "", ""
	}
	defer f.Close()
	sc := bufio.NewScanner(f)
	for sc.Scan() {
		l := sc.Text()
		if strings.HasPrefix(l, "# property:") {
			prop = strings.TrimSpace(strings.TrimPrefix(l, "# property:"))
		}
		if strings.HasPrefix(l, "# expect:") {
			expect = strings.TrimSpace(strings.TrimPrefix(l, "# expect:"))
		}
		if strings.HasPrefix(l, "# base:") {
			base = strings.Fields(strings.TrimSpace(strings.TrimPrefix(l, "# base:")))[0]
		}
		if strings.HasPrefix(l, "--- ") {
			break
		}
	}
	return prop, expect, base
}

// witnesses replays every known-finding witness twice: on the current tree (the defect is
// repaired: no violation expected) and on a scratch copy with the repair reverted by the
// mutant named in known_findings.json (the recorded violation class must come back).  It shows
// that replay files stay meaningful: replaying one reproduces the violation exactly as long as
// the defect is present, and only then.
func witnesses() int {
	defer cleanup()
	var err error
	scratch, err = os.MkdirTemp("", "verif-wit-")
	if err != nil {
		return 2
	}
	rc := 0
	b, err := os.ReadFile(filepath.Join(verifDir, "known_findings.json"))
	if err != nil {
		return 2
	}
	var doc struct {
		Findings []map[string]any `json:"findings"`
	}
	if json.Unmarshal(b, &doc) != nil {
		return 2
	}
	for _, f := range doc.Findings {
		wit, _ := f["witness"].(string)
		mut, _ := f["reintroduced_by"].(string)
		prop, _ := f["property"].(string)
		class, _ := f["class"].(string)
		p, ok := props[prop]
		if wit == "" || mut == "" || !ok {
			continue
		}
		cb, err := os.ReadFile(filepath.Join(verifDir, wit))
		if err != nil {
			fmt.Printf("witness %-60s missing\n", wit)
			rc = 2
			continue
		}
		var c caseDoc
		json.Unmarshal(cb, &c)
		judge := func(repo string) string {
			worker, err := prepare(p, repo)
			if err != nil {
				return "build-failed: " + err.Error()
			}
			res, v, err := replayOnce(worker, filepath.Join(scratch, p.ID, "out"), clone(c), true, "wit")
			if err != nil {
				return "error: " + err.Error()
			}
			if v != nil && v.Class == "replay_diverged" {
				res, v, err = replayOnce(worker, filepath.Join(scratch, p.ID, "out"), clone(c), false, "wit2")
				if err != nil {
					return "error: " + err.Error()
				}
			}
			_ = res
			if v == nil {
				return "no violation"
			}
			return v.Class
		}
		onFixed := judge(repoDir())
		rdir := filepath.Join(scratch, "repo")
		os.RemoveAll(rdir)
		run("", nil, "rsync", "-a", "--exclude", ".git", repoDir()+"/", rdir+"/")
		if out, err := run(rdir, nil, "patch", "-p1", "--no-backup-if-mismatch", "-i", filepath.Join(verifDir, mut)); err != nil {
			fmt.Printf("witness %-60s mutant does not apply: %s\n", wit, strings.TrimSpace(out))
			rc = 2
			continue
		}
		onBroken := judge(rdir)
		ok2 := onFixed == "no violation" && onBroken == class
		if !ok2 {
			rc = 2
		}
		fmt.Printf("witness %-66s repaired tree: %-14s defect re-introduced: %-32s %v\n", filepath.Base(wit), onFixed, onBroken, map[bool]string{true: "ok", false: "UNEXPECTED"}[ok2])
	}
	return rc
}
