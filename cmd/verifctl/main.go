// verifctl drives one check: scratch copy of /repo's working tree, rewrite, build, fan-out of
// worker processes, collection, shrinking with fresh-process confirmation, known-finding
// matching, evidence.  See DESIGN.md section 3 and appendix A.
//
// Exit codes: 0 property held on everything explored; 1 VIOLATION; 2 machinery trouble.
package main

import (
	"bytes"
	"encoding/binary"
	"encoding/json"
	"fmt"
	"os"
	"os/exec"
	"os/signal"
	"path/filepath"
	"runtime"
	"sort"
	"strconv"
	"strings"
	"sync"
	"syscall"
	"time"
)

// verifDir is the root of the verification tree this binary belongs to (<root>/bin/verifctl),
// so that a snapshot of /verif is self-contained; falls back to /verif.
var verifDir = func() string {
	if exe, err := os.Executable(); err == nil {
		root := filepath.Dir(filepath.Dir(exe))
		if _, err := os.Stat(filepath.Join(root, "zzsim", "core")); err == nil {
			return root
		}
	}
	return "/verif"
}()

func repoDir() string {
	if r := os.Getenv("VERIF_REPO"); r != "" {
		return r
	}
	return "/repo"
}

type propCfg struct {
	ID       string
	Engine   string // A, B, C
	Pkgs     string // package dirs to rewrite
	Imports  string
	Timers   bool
	MapRange bool
	Yield    bool
	Race     bool
	Level    string
	QuickS   int
	ThorS    int
	Real     []string
	Stubs    []string
	Rule     string
	Assume   []string
}

const impA = "sync/atomic=satomic,sync=ssync,runtime=sruntime,time=stime"

var props = map[string]*propCfg{
	"C01": {ID: "C01", Engine: "A", Pkgs: "ringz", Imports: impA, Timers: true, Race: true, Level: "exploration", QuickS: 25, ThorS: 600,
		Real:  []string{"ringz/sync.go (every statement)", "sync/atomic operations (real, after a scheduling point)", "Go race detector"},
		Stubs: []string{"goroutine scheduling (core scheduler)", "runtime.Gosched (spin model)", "time.Now/NewTicker (simulated clock)"},
		Rule:  "cases = (capacity, initial fill and rotation, per-thread programs over Push/Pop/Len/IsEmpty/IsFull/PushWait/PopWait, scheduler policy, stalls, freeze point) drawn from the run seed; a run is non-trivial when >=2 operations were open at once and >=1 preemption happened inside an operation; distinct = distinct event-log hash (thread, step kind, symbolic address, result) over such runs",
	},
	"C11": {ID: "C11", Engine: "A", Pkgs: "listz", Imports: impA, Timers: true, Race: true, Level: "exploration", QuickS: 25, ThorS: 600,
		Real:  []string{"listz/sync_list.go (every statement)", "sync/atomic operations (real, after a scheduling point)", "Go race detector"},
		Stubs: []string{"goroutine scheduling (core scheduler)", "runtime.Gosched (spin model)", "time.Now/NewTicker (simulated clock)"},
		Rule:  "cases = (initial content, per-thread programs over Push/Pop/PopWait/Len, optional probe thread, scheduler policy, stalls, freeze point) drawn from the run seed; non-trivial = >=2 operations open at once and >=1 preemption inside an operation; distinct = distinct event-log hash over such runs",
	},
	"C12": {ID: "C12", Engine: "A", Pkgs: "mapz", Imports: impA, MapRange: true, Race: true, Level: "exploration", QuickS: 25, ThorS: 600,
		Real:  []string{"mapz/safekv.go, mapz/iter.go, mapz/kv.go (every statement)", "sync.RWMutex (real lock taken after admission by the lock model)", "sync/atomic operations if the package uses any (real, after a scheduling point)", "Go race detector"},
		Stubs: []string{"goroutine scheduling (core scheduler)", "lock admission (reader/writer model)", "map iteration order (smap, seeded permutation)", "sync.Pool if used (deterministic pool, emptied and ordered by the run seed)"},
		Rule:  "cases = (initial map, per-thread programs over all SafeKV methods, scheduler policy, stalls) drawn from the run seed; non-trivial = >=2 operations open at once and >=1 preemption inside an operation; distinct = distinct event-log hash over such runs",
	},
}

func init() {
	seqAssume := []string{"single-threaded by construction: the simulated environment (clock, entropy, PRNG words, map order, I/O peers) is the only nondeterminism"}
	props["C02"] = &propCfg{ID: "C02", Engine: "C", Pkgs: "listz", Imports: "time=stime,math/rand=smrand,sync=csync,runtime=sruntime", Level: "exploration", QuickS: 20, ThorS: 480,
		Real:   []string{"listz/skip.go, listz/skip_cmp.go, listz/iter.go (every statement)", "math/rand.Rand arithmetic on top of the simulated source"},
		Stubs:  []string{"math/rand source (tower-height words from the run seed, per-run distribution)", "time.Now (seed of the list's PRNG)"},
		Rule:   "cases = (list flavour and key type/comparator, start state New/Init/zero value, tower-word distribution, 2..60 operations over every method with bounds from present/absent/gap keys) drawn from the run seed; non-trivial = the list drew tower words under a non-production distribution or built a tower of >=3 levels, or started from the zero value; distinct = distinct hash of (params, operations, env seed) over such runs",
		Assume: seqAssume}
	props["C03"] = &propCfg{ID: "C03", Engine: "C", Pkgs: "listz,setz", Imports: "time=stime,math/rand=smrand,sync=csync,runtime=sruntime", Level: "exploration", QuickS: 20, ThorS: 480,
		Real:   []string{"setz/roaring_bitmap.go, setz/iter.go, setz/bits.go, listz/skip.go (every statement)"},
		Stubs:  []string{"math/rand source of the embedded bucket skip list (tower-height words from the run seed)", "time.Now (seed of that PRNG)"},
		Rule:   "cases = (bucket keys, tower-word distribution, operations Add/Remove/Contains/Len, arithmetic runs of 300..5000 values added/removed ascending/descending/shuffled so buckets cross 4096 both ways, enumerations by Iter/Range/All complete and early-stopped) drawn from the run seed; non-trivial = the bucket list drew >=2 tower words and (a non-production tower distribution was in force or a conversion/emptying/re-population probe fired); distinct = distinct hash of (params, operations, env seed) over such runs",
		Assume: seqAssume}
	props["C20"] = &propCfg{ID: "C20", Engine: "C", Pkgs: "randz", Imports: "time=stime,crypto/rand=scrand,math/rand=smrand,sync=csync,github.com/welllog/golib/hashz=shashz,runtime=sruntime", Level: "exploration", QuickS: 20, ThorS: 480,
		Real:   []string{"randz/id.go, randz/str.go, randz/count.go (every statement)", "math/big and crypto/rand.Int arithmetic on top of the simulated entropy reader"},
		Stubs:  []string{"time.Since/time.Now (clock trace decided by the run seed)", "crypto/rand.Reader (seeded/extreme bytes, short reads, errors so the math/rand fallback runs)", "math/rand package-level draws and sources", "the rand.Source handed to NewStrGenerator (seeded PRNG)", "hashz.BKDRHash as used by CountGenerator (per-identifier value drawn by the simulator, extremes of [0, 2^31-1] over-represented)"},
		Rule:   "cases = one of 4 scenarios (IdGenerator under a clock trace and an entropy plan; StrGenerator over a random character set of 1..40 runes of 1-4 bytes; ID numerals and base-32 round trip on random and boundary ids; CountGenerator swept over elapsed times for a random positive rule set) drawn from the run seed, plus one finite table (every byte value at first/middle/last position of valid strings of length 1..13 given to ParseBase32) enumerated exhaustively once per check; non-trivial = an adversarial environment decision actually took place (entropy error/short read/extreme bytes, clock before the start / next to a millisecond boundary / around 2^41 ms, multi-byte or power-of-two character set or more than one source word, boundary ids, equal periods or interval > period); distinct = distinct hash of (params, operations, env seed)",
		Assume: append([]string{"the ParseBase32 invalid-byte clause is decided by plain exhaustive enumeration of a finite table, not by simulation (DESIGN.md C20)"}, seqAssume...)}
	props["C18"] = &propCfg{ID: "C18", Engine: "C", Pkgs: "algz", Imports: "sync=csync,runtime=sruntime", MapRange: true, Level: "exploration", QuickS: 20, ThorS: 480,
		Real:   []string{"algz/dp.go, algz/graph.go (every statement; range-over-map statements rewritten to iterate a simulator-ordered key list)"},
		Stubs:  []string{"Go's randomised map iteration order (smap: seeded permutation / ascending / descending per run)"},
		Rule:   "cases = (item list of <= 10 (thorough 12) items with many equal weights/values, limit 0..sum+2, tie-breaker none/fewer/new, overflow allowed or not) or (undirected graph on <= 9 vertices: random density, disjoint cliques, complete, edgeless, isolated vertices) drawn from the run seed, every map range ordered by the simulator; oracle = brute force over all subsets / vertex sets; non-trivial = at least one map range was ordered by the simulator with a drawn permutation or an extreme order; distinct = distinct hash of (params, operations, env seed) over such runs",
		Assume: append([]string{"the weakest claim: apart from map order this is generated input against a brute-force oracle (DESIGN.md C18)"}, seqAssume...)}
	props["C19"] = &propCfg{ID: "C19", Engine: "B", Pkgs: "goz", Imports: "sync=bsync", Yield: true, Level: "exploration", QuickS: 25, ThorS: 480,
		Real:   []string{"goz/goz.go (every statement, with a scheduling point inserted before each)", "Go channels, go statements, select, timers, defer/recover (real, inside a testing/synctest bubble)"},
		Stubs:  []string{"which goroutine proceeds at each statement (seeded choice at every quiescent point)", "task bodies (harness: internal yields, gates that stall them, injected panics)", "clock (synctest fake clock)", "sync.Mutex/RWMutex (channel-based, so that a holder may be parked) and sync.WaitGroup (model with the wake-up-to-recheck window and the real one's misuse panics), sync.Pool (deterministic)"},
		Rule:   "cases = (limit in {-1,0,1,2,3,5}, handler set or nil, submitter script of Go/Wait over tasks that yield, block on a gate and/or panic with a string, error or struct, followed by limit+1 gate-blocked tasks) drawn from the run seed; a run is non-trivial when >=2 goroutines were parked at once and >=1 switch between goroutines happened; distinct = distinct hash of the sequence of quiescent states (parked goroutines and their statements) and choices",
		Assume: []string{"testing/synctest (go1.26.8) reports quiescence correctly; between two decisions only the released goroutine and goroutines it unblocks run, each stopping at its next statement"}}
	props["C09"] = &propCfg{ID: "C09", Engine: "C", Pkgs: "cryptz", Imports: "crypto/rand=scrand,sync=csync,runtime=sruntime", Level: "fault_enumeration", QuickS: 20, ThorS: 480,
		Real:   []string{"cryptz/crypt.go, cryptz/aes.go, strz/enc.go (every statement)", "Go standard crypto (aes, cipher, md5) inside golib", "the real `openssl enc -aes-256-cbc -md md5` binary when present (28 messages both ways per check; optional)"},
		Stubs:  []string{"crypto/rand.Reader (seeded/extreme bytes, short reads, errors)", "io.Reader peer (7 chunking policies, error after k bytes, data together with EOF or error, zero-length reads)", "io.Writer peer (error after k bytes)", "storage/transport medium (bit flips per field, truncation, extension, text substitution, wrong secret/AAD)", "the caller's own buffers (plaintext, additional data, key and message buffers overwritten in place between calls)", "sync.Pool if used (deterministic pool, emptied and ordered by the run seed)"},
		Rule:   "cases = (scenario of 9 classes, plaintext/secret/AAD lengths, generic instantiation string|[]byte, entropy plan, reader and writer chunking policies, fault position, medium fault kind/position/bit) drawn from the run seed, fault-free and faulted classes kept apart; non-trivial = at least one fault or non-default peer behaviour actually fired (short/zero/EOF-with-data read, peer error, entropy error/short read/extreme bytes, medium fault, garbage input); distinct = distinct hash of (params, env seed) over such runs",
		Assume: append([]string{"the reference derivation (crypto/md5, crypto/aes, cipher.NewCBCEncrypter/NewGCM/NewCTR of the Go standard library) is EVP_BytesToKey(MD5, 1 round) / openssl enc -aes-256-cbc -md md5", "a hex substitution that decodes to the same bytes is not a difference of the encoded message"}, seqAssume...)}
}

func init() {
	for _, id := range []string{"C02", "C03", "C09", "C18", "C20"} {
		p := props[id]
		p.Real = append(p.Real, "a companion worker (harness/cmd/conf) built with the Go race detector from the UNREWRITTEN tree (C09, C20: with crypto/rand alone redirected to the simulated entropy source, so that it can fail): two or three simulated threads, each with instances and arguments of its own - and, for randz, sharing the package-level defaults the library makes goroutine-safe - interleaved at operation granularity by the Engine-A scheduler")
		p.Rule += "; the companion worker's runs (threads with private instances) are counted with the others"
	}
	for id, p := range props {
		if id != "C19" {
			p.Stubs = append(p.Stubs, "runtime.GOMAXPROCS/NumCPU (processor count of the simulated machine: one of 1,2,3,4,8,16,64,100 per worker process, derived from the seed)")
		}
	}
}

var scratch string

// nondetCode: the determinism self-check failed on the code under test (see checkCmd).
var nondetCode bool

// curEngine is the engine of the property being checked (worker invocation differs for B).
var curEngine string

// replayDir overrides where replay files go (sensitivity runs keep them out of /verif).
var replayDir string

func cleanup() {
	if scratch != "" && os.Getenv("VERIF_KEEP") == "" {
		os.RemoveAll(scratch)
	}
}

func fatal2(format string, a ...any) {
	fmt.Fprintf(os.Stderr, "verifctl: "+format+"\n", a...)
	cleanup()
	os.Exit(2)
}

func goEnv() []string {
	env := os.Environ()
	env = append(env, "GOFLAGS=-mod=mod", "GOPROXY=off", "GOSUMDB=off", "GOTOOLCHAIN=local", "GONOSUMDB=*", "GONOSUMCHECK=1")
	return env
}

func run(dir string, env []string, name string, args ...string) (string, error) {
	cmd := exec.Command(name, args...)
	cmd.Dir = dir
	if env != nil {
		cmd.Env = env
	}
	var buf bytes.Buffer
	cmd.Stdout = &buf
	cmd.Stderr = &buf
	err := cmd.Run()
	return buf.String(), err
}

func main() {
	if len(os.Args) < 2 {
		fmt.Fprintln(os.Stderr, "usage: verifctl <ID> quick|thorough | <ID> --replay <file> | selftest [ID...] | sensitivity [mutant...]")
		os.Exit(2)
	}
	sig := make(chan os.Signal, 1)
	signal.Notify(sig, syscall.SIGINT, syscall.SIGTERM)
	go func() {
		<-sig
		cleanup()
		os.Exit(2)
	}()
	switch os.Args[1] {
	case "selftest":
		os.Exit(selftest(os.Args[2:]))
	case "sensitivity":
		os.Exit(sensitivity(os.Args[2:]))
	case "witnesses":
		os.Exit(witnesses())
	}
	id := os.Args[1]
	p, ok := props[id]
	if !ok {
		fmt.Fprintf(os.Stderr, "verifctl: unknown property %s\n", id)
		os.Exit(2)
	}
	if len(os.Args) >= 4 && os.Args[2] == "--replay" {
		os.Exit(replayCmd(p, os.Args[3]))
	}
	tier := "quick"
	if len(os.Args) >= 3 {
		tier = os.Args[2]
	}
	if t := os.Getenv("VERIF_TIER"); t != "" && len(os.Args) < 3 {
		tier = t
	}
	if tier != "quick" && tier != "thorough" {
		fmt.Fprintf(os.Stderr, "verifctl: unknown tier %s\n", tier)
		os.Exit(2)
	}
	code := checkCmd(p, tier, repoDir(), true)
	cleanup()
	os.Exit(code)
}

func seedEnv() uint64 {
	s := uint64(1)
	if v := os.Getenv("VERIF_SEED"); v != "" {
		if x, err := strconv.ParseUint(v, 10, 64); err == nil {
			s = x
		} else if y, err := strconv.ParseInt(v, 10, 64); err == nil {
			s = uint64(y)
		}
	}
	return s
}

func workersEnv() int {
	n := runtime.NumCPU()
	if v := os.Getenv("VERIF_WORKERS"); v != "" {
		if x, err := strconv.Atoi(v); err == nil && x > 0 {
			n = x
		}
	}
	return n
}

// prepare makes the scratch copy, rewrites and builds the worker; returns the worker path.
func prepare(p *propCfg, repo string) (string, error) {
	var err error
	curEngine = p.Engine
	if scratch == "" {
		scratch, err = os.MkdirTemp("", "verif-"+p.ID+"-")
		if err != nil {
			return "", err
		}
	}
	base := filepath.Join(scratch, p.ID)
	os.RemoveAll(base)
	os.MkdirAll(base, 0o755)
	golib := filepath.Join(base, "golib")
	if out, err := run("", nil, "rsync", "-a", "--exclude", ".git", repo+"/", golib+"/"); err != nil {
		return "", fmt.Errorf("copy repo: %v %s", err, out)
	}
	if out, err := run("", nil, "rsync", "-a", "--exclude", "go.mod", verifDir+"/zzsim/", golib+"/zzsim/"); err != nil {
		return "", fmt.Errorf("copy shims: %v %s", err, out)
	}
	har := filepath.Join(base, "harness")
	if out, err := run("", nil, "rsync", "-a", "--exclude", "go.mod", verifDir+"/harness/", har+"/"); err != nil {
		return "", fmt.Errorf("copy harness: %v %s", err, out)
	}
	gomod := "module harness\n\ngo 1.23\n\nrequire (\n\tgithub.com/anishathalye/porcupine v1.3.0\n\tgithub.com/welllog/golib v0.0.0\n)\n\nreplace github.com/welllog/golib => ../golib\n"
	if err := os.WriteFile(filepath.Join(har, "go.mod"), []byte(gomod), 0o644); err != nil {
		return "", err
	}
	args := []string{"-root", golib, "-pkgs", p.Pkgs}
	if p.Imports != "" {
		args = append(args, "-imports", p.Imports)
	}
	if p.Timers {
		args = append(args, "-timers")
	}
	if p.MapRange {
		args = append(args, "-maprange")
	}
	if p.Yield {
		args = append(args, "-yield")
	}
	if p.Engine == "A" {
		args = append(args, "-nochan")
	}
	out, err := run("", goEnv(), filepath.Join(verifDir, "bin", "rewrite"), args...)
	if err != nil {
		return "", fmt.Errorf("rewrite: %v\n%s", err, out)
	}
	worker := filepath.Join(base, "worker")
	bargs := []string{"build"}
	if p.Race {
		bargs = append(bargs, "-race")
	}
	bargs = append(bargs, "-o", worker, "./cmd/"+strings.ToLower(p.ID))
	gobin := "go"
	if p.Engine == "B" {
		// testing/synctest needs the newer toolchain
		gobin = "go1.26.8"
		bargs = []string{"test", "-c", "-o", worker, "./wb"}
	}
	out, err = run(har, goEnv(), gobin, bargs...)
	if err != nil {
		return "", fmt.Errorf("build worker: %v\n%s", err, out)
	}
	confBin = ""
	if p.Engine == "C" {
		// the companion worker of the sequential checks (harness/cmd/conf): thread-confined
		// instances under the race detector, built from an UNREWRITTEN copy of the tree
		plain := filepath.Join(base, "plain")
		pg, ph := filepath.Join(plain, "golib"), filepath.Join(plain, "harness")
		os.MkdirAll(plain, 0o755)
		if out, err := run("", nil, "rsync", "-a", "--exclude", ".git", repo+"/", pg+"/"); err != nil {
			return "", fmt.Errorf("copy repo (plain): %v %s", err, out)
		}
		if out, err := run("", nil, "rsync", "-a", "--exclude", "go.mod", verifDir+"/zzsim/", pg+"/zzsim/"); err != nil {
			return "", fmt.Errorf("copy shims (plain): %v %s", err, out)
		}
		if out, err := run("", nil, "rsync", "-a", har+"/", ph+"/"); err != nil {
			return "", fmt.Errorf("copy harness (plain): %v %s", err, out)
		}
		if p.ID == "C09" || p.ID == "C20" {
			// the one seam the companion keeps: the entropy source (so that it can fail); no
			// scheduling points, no other shim
			if out, err := run("", goEnv(), filepath.Join(verifDir, "bin", "rewrite"), "-root", pg, "-pkgs", p.Pkgs, "-imports", "crypto/rand=scrand"); err != nil {
				return "", fmt.Errorf("rewrite (plain): %v\n%s", err, out)
			}
		}
		cb := filepath.Join(base, "conf_worker")
		if out, err := run(ph, goEnv(), "go", "build", "-race", "-o", cb, "./cmd/conf"); err != nil {
			return "", fmt.Errorf("build conf worker: %v\n%s", err, out)
		}
		confBin = cb
		// ... and a second build of the same worker from a copy in which the package's atomics
		// and locks ARE scheduling points (satomic, ssync): used for the first-use sweep, where
		// what matters happens inside the first calls (a lazily built table, a lazily created
		// default).  Code that blocks on channels cannot be scheduled that way (the rewriter
		// refuses it); then the sweep uses the plain build.
		confFineBin = ""
		fine := filepath.Join(base, "fine")
		if out, err := run("", nil, "rsync", "-a", plain+"/", fine+"/"); err != nil {
			return "", fmt.Errorf("copy (fine): %v %s", err, out)
		}
		if out, err := run("", goEnv(), filepath.Join(verifDir, "bin", "rewrite"), "-root", filepath.Join(fine, "golib"), "-pkgs", p.Pkgs, "-imports", "sync/atomic=satomic,sync=ssync", "-nochan"); err != nil {
			fmt.Fprintf(os.Stderr, "verifctl: first-use sweep on the plain companion build (%s)\n", strings.TrimSpace(lastLine(string(out))))
		} else {
			fb := filepath.Join(base, "conf_fine_worker")
			if out, err := run(filepath.Join(fine, "harness"), goEnv(), "go", "build", "-race", "-o", fb, "./cmd/conf"); err != nil {
				return "", fmt.Errorf("build conf worker (fine): %v\n%s", err, out)
			}
			confFineBin = fb
		}
	}
	return worker, nil
}

// counters of the companion worker for the evidence file
var confRuns, confRaces, confDetN int

// confBin is the companion worker of the current (Engine C) check, confFineBin its variant with
// scheduling points inside the package, see prepare.
var confBin, confFineBin string

func lastLine(s string) string {
	s = strings.TrimSpace(s)
	if i := strings.LastIndexByte(s, '\n'); i >= 0 {
		return s[i+1:]
	}
	return s
}

type violation struct {
	Class  string `json:"class"`
	Site   string `json:"site"`
	Detail string `json:"detail"`
}

type caseDoc = map[string]any

type workerOut struct {
	Property    string         `json:"property"`
	Worker      int            `json:"worker"`
	Runs        int            `json:"runs"`
	Steps       int64          `json:"steps"`
	SimNs       int64          `json:"sim_ns"`
	Nontrivial  int            `json:"nontrivial"`
	HashFile    string         `json:"hash_file"`
	Faults      map[string]int `json:"faults"`
	Probes      map[string]int `json:"probes"`
	Ends        map[string]int `json:"ends"`
	PorcOK      int            `json:"porc_ok"`
	PorcIllegal int            `json:"porc_illegal"`
	PorcUnknown int            `json:"porc_unknown"`
	RaceReports int            `json:"race_reports"`
	Violations  []caseDoc      `json:"violations"`
	ViolCount   map[string]int `json:"viol_count"`
	Samples     []caseDoc      `json:"samples"`
	RunHashes   []string       `json:"run_hashes"`
	WallMs      int64          `json:"wall_ms"`
	Notes       []string       `json:"notes"`
}

func violOf(c caseDoc) *violation {
	v, ok := c["violation"].(map[string]any)
	if !ok || v == nil {
		return nil
	}
	s := func(k string) string { x, _ := v[k].(string); return x }
	return &violation{Class: s("class"), Site: s("site"), Detail: s("detail")}
}

func (v *violation) key() string { return v.Class + "@" + v.Site }

func workerEnv(dir string, w int, extra ...string) []string {
	env := os.Environ()
	if curEngine == "B" {
		env = append(env, "GODEBUG=panicnil=1") // C19 task kind 4: panic(nil) as under golib's go 1.18
	}
	env = append(env, "GORACE=log_path="+filepath.Join(dir, fmt.Sprintf("race%d", w))+" halt_on_error=0 atexit_sleep_ms=0 exitcode=0")
	env = append(env, extra...)
	return env
}

// explore fans out workers and returns their outputs.
func explore(p *propCfg, worker, dir string, seed uint64, nW int, budgetMs int, maxRuns int, tier string, dump bool, extraEnv ...string) ([]*workerOut, error) {
	os.MkdirAll(dir, 0o755)
	outs := make([]*workerOut, nW)
	errs := make([]error, nW)
	var wg sync.WaitGroup
	for w := 0; w < nW; w++ {
		wg.Add(1)
		go func(w int) {
			defer wg.Done()
			outFile := filepath.Join(dir, fmt.Sprintf("w%d.json", w))
			args := []string{"-mode", "explore", "-seed", strconv.FormatUint(seed, 10), "-worker", strconv.Itoa(w),
				"-budget-ms", strconv.Itoa(budgetMs), "-tier", tier, "-out", outFile, "-hash-out", filepath.Join(dir, fmt.Sprintf("h%d.bin", w))}
			if maxRuns > 0 {
				args = append(args, "-max-runs", strconv.Itoa(maxRuns))
			}
			crashFile := filepath.Join(dir, fmt.Sprintf("crash%d.json", w))
			if p.Engine == "B" {
				args = append([]string{"-test.timeout=0", "-test.run=^TestWorker$"}, args...)
				args = append(args, "-crash-file", crashFile)
			}
			if dump {
				args = append(args, "-dump-hashes")
			}
			for _, e := range extraEnv {
				if e == "VERIF_REVERSE=1" {
					args = append(args, "-reverse")
				}
			}
			cmd := exec.Command(worker, args...)
			cmd.Env = workerEnv(dir, w, extraEnv...)
			var buf bytes.Buffer
			cmd.Stdout = &buf
			cmd.Stderr = &buf
			if err := cmd.Start(); err != nil {
				errs[w] = err
				return
			}
			done := make(chan error, 1)
			go func() { done <- cmd.Wait() }()
			grace := time.Duration(budgetMs)*time.Millisecond*3 + 120*time.Second
			select {
			case err := <-done:
				if err != nil {
					if p.Engine == "B" {
						// a worker killed by an unrecovered panic of a task is a property
						// violation candidate (C19: "does not terminate the process"); it is
						// confirmed by replaying the case it was executing in a fresh process
						if cb, e2 := os.ReadFile(crashFile); e2 == nil && looksLikeCrash(buf.String()) {
							var c caseDoc
							if json.Unmarshal(cb, &c) == nil {
								c["violation"] = map[string]any{"class": "process_killed", "site": "goz.(*Limiter).Go", "detail": "worker process terminated by a panic while executing this case: " + firstPanicLine(buf.String())}
								outs[w] = &workerOut{Property: p.ID, Worker: w, Violations: []caseDoc{c}, ViolCount: map[string]int{"process_killed@goz.(*Limiter).Go": 1}, Faults: map[string]int{}, Probes: map[string]int{}, Ends: map[string]int{}}
								return
							}
						}
					}
					errs[w] = fmt.Errorf("worker %d: %v\n%s", w, err, tail(buf.String(), 4000))
					return
				}
			case <-time.After(grace):
				cmd.Process.Kill()
				errs[w] = fmt.Errorf("worker %d: watchdog: no result after %v\n%s", w, grace, tail(buf.String(), 2000))
				return
			}
			b, err := os.ReadFile(outFile)
			if err != nil {
				errs[w] = err
				return
			}
			var o workerOut
			if err := json.Unmarshal(b, &o); err != nil {
				errs[w] = err
				return
			}
			outs[w] = &o
		}(w)
	}
	wg.Wait()
	for _, e := range errs {
		if e != nil {
			return outs, e
		}
	}
	return outs, nil
}

func looksLikeCrash(s string) bool {
	return strings.Contains(s, "panic:") || strings.Contains(s, "fatal error:") || strings.Contains(s, "panic while printing")
}

func firstPanicLine(s string) string {
	for _, l := range strings.Split(s, "\n") {
		if strings.HasPrefix(l, "panic:") || strings.HasPrefix(l, "fatal error:") || strings.Contains(l, "panic while printing") {
			return l
		}
	}
	return "?"
}

func tail(s string, n int) string {
	if len(s) > n {
		return s[len(s)-n:]
	}
	return s
}

// replayOnce runs one case in a fresh worker process and returns the resulting case document.
func replayOnce(worker, dir string, c caseDoc, strict bool, tag string) (caseDoc, *violation, error) {
	os.MkdirAll(dir, 0o755)
	in := filepath.Join(dir, "case-"+tag+".json")
	out := filepath.Join(dir, "res-"+tag+".json")
	b, _ := json.Marshal(c)
	if err := os.WriteFile(in, b, 0o644); err != nil {
		return nil, nil, err
	}
	args := []string{"-mode", "replay", "-case", in, "-out", out}
	if strict {
		args = append(args, "-strict")
	}
	if m, _ := c["replay_mode"].(string); m == "process" && curEngine != "B" {
		// the whole worker process is replayed up to and including the run of this case
		args = []string{"-mode", "process", "-case", in, "-out", out}
	}
	if curEngine == "B" {
		args = append([]string{"-test.timeout=0", "-test.run=^TestWorker$"}, args...)
	}
	extra := []string{}
	if pm, ok := c["params"].(map[string]any); ok && pm["conf"] != nil && confBin != "" {
		// a case of the companion worker (thread-confined instances)
		worker = confBin
		extra = append(extra, "VERIF_CONF_PROP="+fmt.Sprint(c["property"]))
		if fmt.Sprint(pm["conf"]) == "2" && confFineBin != "" {
			worker = confFineBin
			extra = append(extra, "VERIF_CONF_FINE=1")
		}
	}
	cmd := exec.Command(worker, args...)
	cmd.Env = workerEnv(dir, 900, extra...)
	var buf bytes.Buffer
	cmd.Stdout = &buf
	cmd.Stderr = &buf
	if err := cmd.Start(); err != nil {
		return nil, nil, err
	}
	done := make(chan error, 1)
	go func() { done <- cmd.Wait() }()
	select {
	case err := <-done:
		if err != nil {
			if curEngine == "B" && looksLikeCrash(buf.String()) {
				d := clone(c)
				v := &violation{Class: "process_killed", Site: "goz.(*Limiter).Go", Detail: "worker process terminated by a panic while executing this case: " + firstPanicLine(buf.String())}
				d["violation"] = map[string]any{"class": v.Class, "site": v.Site, "detail": v.Detail}
				d["log_hash"] = "process-killed"
				return d, v, nil
			}
			return nil, nil, fmt.Errorf("replay worker: %v\n%s", err, tail(buf.String(), 3000))
		}
	case <-time.After(120 * time.Second):
		cmd.Process.Kill()
		return nil, nil, fmt.Errorf("replay worker: watchdog")
	}
	rb, err := os.ReadFile(out)
	if err != nil {
		return nil, nil, err
	}
	var o workerOut
	if err := json.Unmarshal(rb, &o); err != nil {
		return nil, nil, err
	}
	os.Remove(in)
	os.Remove(out)
	if len(o.Violations) > 0 {
		return o.Violations[0], violOf(o.Violations[0]), nil
	}
	if len(o.Samples) > 0 {
		return o.Samples[0], nil, nil
	}
	return nil, nil, fmt.Errorf("replay worker returned nothing")
}

type knownFinding struct {
	Status   string   `json:"status"` // open | fixed
	Property string   `json:"property"`
	Class    string   `json:"class"`
	Site     string   `json:"site"`
	SiteAny  []string `json:"site_any,omitempty"` // alternative to site: matches if the violation site contains any of these
	What     string   `json:"what"`
	Commit   string   `json:"commit,omitempty"`
	Witness  any      `json:"witness,omitempty"`
}

func loadKnown() []knownFinding {
	b, err := os.ReadFile(filepath.Join(verifDir, "known_findings.json"))
	if err != nil {
		return nil
	}
	var doc struct {
		Findings []knownFinding `json:"findings"`
	}
	if err := json.Unmarshal(b, &doc); err != nil {
		fatal2("known_findings.json: %v", err)
	}
	return doc.Findings
}

func matchKnown(kf []knownFinding, id string, v *violation) *knownFinding {
	for i := range kf {
		k := &kf[i]
		if k.Status != "open" || k.Property != id || k.Class != v.Class {
			continue
		}
		if k.Site != "" && k.Site == v.Site {
			return k
		}
		for _, sub := range k.SiteAny {
			if strings.Contains(v.Site, sub) {
				return k
			}
		}
	}
	return nil
}

func checkCmd(p *propCfg, tier, repo string, writeEvidence bool) int {
	start := time.Now()
	seed := seedEnv()
	fmt.Printf("VERIF_SEED=%d property=%s tier=%s engine=%s\n", seed, p.ID, tier, p.Engine)
	worker, err := prepare(p, repo)
	if err != nil {
		fmt.Fprintf(os.Stderr, "verifctl: %v\n", err)
		return 2
	}
	buildS := time.Since(start).Seconds()
	budget := p.QuickS
	if tier == "thorough" {
		budget = p.ThorS
	}
	if v := os.Getenv("VERIF_BUDGET_S"); v != "" {
		if x, err := strconv.Atoi(v); err == nil && x > 0 {
			budget = x
		}
	}
	nW := workersEnv()
	dir := filepath.Join(scratch, p.ID, "out")
	var wrapCh chan map[string]any
	if (p.ID == "C01" || p.ID == "C11" || p.ID == "C03") && tier == "thorough" {
		wrapCh = make(chan map[string]any, 1)
		go func() { wrapCh <- realWrap(p, dir) }()
	}
	var confCh chan []*workerOut
	confRuns, confRaces, confDetN = 0, 0, 0
	if confBin != "" {
		confCh = make(chan []*workerOut, 1)
		go func() {
			pc := *p
			pc.Engine = "A"
			co, cerr := explore(&pc, confBin, filepath.Join(scratch, p.ID, "conf"), seed, 2, budget*1000/3, 0, tier, false, "VERIF_CONF_PROP="+p.ID)
			if cerr != nil {
				fmt.Fprintf(os.Stderr, "verifctl: conf worker: %v\n", cerr)
				co = nil
			}
			confCh <- co
		}()
	}
	outs, err := explore(p, worker, dir, seed, nW, budget*1000, 0, tier, false)
	if err != nil {
		fmt.Fprintf(os.Stderr, "verifctl: %v\n", err)
		return 2
	}
	if confCh != nil {
		co := <-confCh
		if co == nil {
			return 2
		}
		// and a sweep of fresh processes, one run each: the first run of a process is the only
		// one that sees the package's lazily initialised state untouched
		pc := *p
		pc.Engine = "A"
		sweepBin, sweepEnv := confBin, []string{"VERIF_CONF_PROP=" + p.ID}
		if confFineBin != "" {
			sweepBin, sweepEnv = confFineBin, append(sweepEnv, "VERIF_CONF_FINE=1")
		}
		sw, serr := explore(&pc, sweepBin, filepath.Join(scratch, p.ID, "conf_sweep"), seed+7919, 32, 0, 1, tier, false, sweepEnv...)
		if serr != nil {
			fmt.Fprintf(os.Stderr, "verifctl: conf worker (first-use sweep): %v\n", serr)
			return 2
		}
		co = append(co, sw...)
		for _, o := range co {
			confRuns += o.Runs
			confRaces += o.RaceReports
		}
		outs = append(outs, co...)
	}
	agg := aggregate(outs, dir)
	// embedded determinism self-check: the first 40 runs of worker 0, twice more, fresh
	// processes, different GOMAXPROCS
	detOK, detN := true, 0
	{
		a, e1 := explore(p, worker, filepath.Join(dir, "det1"), seed, 1, 0, 40, tier, true, "VERIF_GOMAXPROCS=1")
		b, e2 := explore(p, worker, filepath.Join(dir, "det2"), seed, 1, 0, 40, tier, true, "VERIF_GOMAXPROCS=4")
		if e1 != nil || e2 != nil {
			fmt.Fprintf(os.Stderr, "verifctl: determinism self-check could not run: %v %v\n", e1, e2)
			return 2
		}
		detN = len(a[0].RunHashes)
		if strings.Join(a[0].RunHashes, "\n") != strings.Join(b[0].RunHashes, "\n") {
			detOK = false
		}
		if confBin != "" {
			// the companion worker's schedules must replay as well
			pc := *p
			pc.Engine = "A"
			ca, e1 := explore(&pc, confBin, filepath.Join(dir, "cdet1"), seed, 1, 0, 20, tier, true, "VERIF_GOMAXPROCS=1", "VERIF_CONF_PROP="+p.ID)
			cb, e2 := explore(&pc, confBin, filepath.Join(dir, "cdet2"), seed, 1, 0, 20, tier, true, "VERIF_GOMAXPROCS=4", "VERIF_CONF_PROP="+p.ID)
			if e1 != nil || e2 != nil {
				fmt.Fprintf(os.Stderr, "verifctl: determinism self-check of the companion worker could not run: %v %v\n", e1, e2)
				return 2
			}
			confDetN = len(ca[0].RunHashes)
			if strings.Join(ca[0].RunHashes, "\n") != strings.Join(cb[0].RunHashes, "\n") {
				detOK = false
			}
		}
	}
	if !detOK {
		// The code under test contains nondeterminism the simulator does not own (typically a
		// select over several ready channels, whose choice the Go runtime draws).  On the
		// unchanged tree this never happens.  A violation found in such a run is still a real
		// execution of the real code: it is reported if a fresh process reproduces its class,
		// without the exact-replay guarantee.  With no violation the property held on everything
		// explored, which is what exit 0 says (a correct change that, say, picks a stripe by
		// hashing an address is no reason for an alarm); the evidence file records that the
		// executions of this run cannot be replayed exactly.  VERIF_STRICT_DETERMINISM=1 turns it
		// into machinery trouble (exit 2).
		fmt.Fprintf(os.Stderr, "verifctl: determinism self-check FAILED: same seeds produced different event logs (the code under test has nondeterminism the simulator does not own)\n")
		nondetCode = true
		if len(agg.byKey) == 0 && os.Getenv("VERIF_STRICT_DETERMINISM") == "1" {
			return 2
		}
	}

	// violations: one representative per (class, site), shrunk and confirmed in fresh processes
	known := loadKnown()
	exit := 0
	var reported []map[string]any
	keys := make([]string, 0, len(agg.byKey))
	for k := range agg.byKey {
		keys = append(keys, k)
	}
	sort.Strings(keys)
	rdir := filepath.Join(verifDir, "replays")
	if replayDir != "" {
		rdir = replayDir
	}
	os.MkdirAll(rdir, 0o755)
	shrunk := 0
	unreproduced := 0
	hangCandidates := 0
	seenKey := map[string]bool{}
	for _, k := range keys {
		cases := agg.byKey[k]
		if shrunk >= 6 {
			// enough minimised witnesses; the rest is reported from its first recorded case
			v := violOf(cases[0])
			if matchKnown(known, p.ID, v) == nil {
				name := fmt.Sprintf("%s-%s-%s.json", p.ID, sanitize(v.Class), sanitize(v.Site))
				path := filepath.Join(rdir, name)
				writeJSON(path, cases[0])
				fmt.Printf("VIOLATION property=%s replay=%s\n  class=%s site=%s detail=%s (seen in %d runs; not minimised)\n", p.ID, path, v.Class, v.Site, v.Detail, agg.violCount[k])
				reported = append(reported, map[string]any{"class": v.Class, "site": v.Site, "detail": v.Detail, "count": agg.violCount[k], "replay": path})
				if exit == 0 {
					exit = 1
				}
			}
			continue
		}
		shrunk++
		c, v, conf := shrinkAndConfirm(p, worker, dir, cases)
		if c == nil && curEngine != "B" {
			// Not reproducible from the case alone.  If the code under test keeps state in
			// package-level variables across calls, the outcome of a run depends on the runs
			// the worker process executed before it: replay that process (same seed, worker
			// and run numbers) up to and including the run.  That is an exact reproduction too.
			for i, pc := range cases {
				if i >= 2 {
					break
				}
				if _, ok := pc["process"]; !ok {
					continue
				}
				d := clone(pc)
				d["replay_mode"] = "process"
				delete(d, "violation")
				res, pv, err := replayOnce(worker, filepath.Join(dir, "shrink"), d, false, "process")
				if err == nil && pv != nil && pv.key() == violOf(pc).key() {
					res["replay_mode"] = "process"
					res["replay_note"] = "reproduces only together with the runs its worker process executed before it (the code under test keeps state across calls in package-level variables); replayed by re-running that process: same VERIF_SEED, worker and run number"
					c, v, conf = res, pv, "process"
					break
				}
			}
		}
		if c == nil {
			// could not be reproduced in a fresh process: machinery trouble, not a verdict
			fmt.Fprintf(os.Stderr, "verifctl: violation %s did not reproduce in a fresh process (%s)\n", k, conf)
			if rt, _ := cases[0]["race_report"].(string); rt != "" && strings.HasSuffix(k, "?|?") {
				// a race report without a frame of the code under test: the harness's own trouble
				fmt.Fprintf(os.Stderr, "verifctl: the report names no function of the code under test:\n%s\n", tail(rt, 1800))
			}
			if strings.HasPrefix(k, "hang@") {
				// the watchdog of an exploring worker is a wall-clock guess (no run finished for
				// 45 s); on a busy machine a slow run looks like a hang.  A genuine hang
				// reproduces in a fresh process (30 s for one case); this one did not.
				hangCandidates++
				continue
			}
			unreproduced++
			continue
		}
		if seenKey[v.key()] {
			continue // already reported (a witness of another class reproduced as this one)
		}
		seenKey[v.key()] = true
		kf := matchKnown(known, p.ID, v)
		name := fmt.Sprintf("%s-%s-%s.json", p.ID, sanitize(v.Class), sanitize(v.Site))
		path := filepath.Join(rdir, name)
		writeJSON(path, c)
		rec := map[string]any{"class": v.Class, "site": v.Site, "detail": v.Detail, "count": agg.violCount[k], "replay": path}
		if kf != nil {
			fmt.Printf("KNOWN-FINDING: property=%s %s (%s at %s; %d runs; replay=%s)\n", p.ID, kf.What, v.Class, v.Site, agg.violCount[k], path)
			rec["known_finding"] = true
		} else {
			fmt.Printf("VIOLATION property=%s replay=%s\n", p.ID, path)
			fmt.Printf("  class=%s site=%s detail=%s (seen in %d runs)\n", v.Class, v.Site, v.Detail, agg.violCount[k])
			if exit == 0 {
				exit = 1
			}
		}
		reported = append(reported, rec)
	}
	if hangCandidates > 0 {
		agg.probes["hang_candidate_not_reproduced_(slow_run_on_a_busy_machine)"] += hangCandidates
	}
	if unreproduced > 0 && exit == 0 {
		// something was seen during exploration and nothing of it could be confirmed: machinery
		// trouble, not a verdict.  (With a confirmed violation of another class the verdict
		// stands: the unconfirmed one is only mentioned above.)
		exit = 2
	}
	if wrapCh != nil {
		wr := <-wrapCh
		agg.extra = map[string]any{"counter_wrap_real_2^32": wr}
		if f, _ := wr["failure"].(string); f != "" {
			path := filepath.Join(rdir, p.ID+"-wrap_sequential.json")
			writeJSON(path, wr)
			wsite := map[string]string{"C01": "ringz.(*SyncRing)", "C11": "listz.(*SyncList)", "C03": "setz.(*RoaringBitmap)"}[p.ID]
			fmt.Printf("VIOLATION property=%s replay=%s\n  class=wrap_sequential site=%s detail=%s\n", p.ID, path, wsite, f)
			reported = append(reported, map[string]any{"class": "wrap_sequential", "site": wsite, "detail": f, "replay": path})
			if exit == 0 {
				exit = 1
			}
		}
		if e, _ := wr["error"].(string); e != "" {
			fmt.Fprintf(os.Stderr, "verifctl: real wrap run: %s\n", e)
			exit = 2
		}
	}
	wall := time.Since(start).Seconds()
	if writeEvidence {
		writeEvidenceFile(p, tier, seed, agg, reported, wall, buildS, float64(budget), nW, detN, exit)
	}
	fmt.Printf("property=%s tier=%s runs=%d distinct_nontrivial=%d violations=%d wall=%.1fs exit=%d\n", p.ID, tier, agg.runs, agg.distinct, len(reported), wall, exit)
	return exit
}

// realWrap builds the C01 worker without -race and lets it perform 2^32-8 real push/pop
// pairs (about two minutes on one core), see harness/cmd/c01 wrapCheck.
func realWrap(p *propCfg, dir string) map[string]any {
	har := filepath.Join(scratch, p.ID, "harness")
	bin := filepath.Join(scratch, p.ID, "worker_norace")
	if out, err := run(har, goEnv(), "go", "build", "-o", bin, "./cmd/"+strings.ToLower(p.ID)); err != nil {
		return map[string]any{"error": "build: " + err.Error() + " " + tail(out, 500)}
	}
	os.MkdirAll(dir, 0o755)
	res := filepath.Join(dir, "wrap.json")
	cmd := exec.Command(bin)
	cmd.Env = append(os.Environ(), "VERIF_C01_WRAP="+res)
	done := make(chan error, 1)
	if err := cmd.Start(); err != nil {
		return map[string]any{"error": err.Error()}
	}
	go func() { done <- cmd.Wait() }()
	select {
	case err := <-done:
		if err != nil {
			return map[string]any{"error": "wrap worker: " + err.Error()}
		}
	case <-time.After(30 * time.Minute):
		cmd.Process.Kill()
		return map[string]any{"error": "wrap worker: watchdog (30 min)"}
	}
	b, err := os.ReadFile(res)
	if err != nil {
		return map[string]any{"error": err.Error()}
	}
	var m map[string]any
	if err := json.Unmarshal(b, &m); err != nil {
		return map[string]any{"error": err.Error()}
	}
	return m
}

func sanitize(s string) string {
	var b strings.Builder
	for _, r := range s {
		if (r >= 'a' && r <= 'z') || (r >= 'A' && r <= 'Z') || (r >= '0' && r <= '9') || r == '_' || r == '-' {
			b.WriteRune(r)
		} else {
			b.WriteByte('_')
		}
	}
	x := b.String()
	if len(x) > 80 {
		x = x[:80]
	}
	return x
}

type aggT struct {
	runs        int
	steps       int64
	simNs       int64
	distinct    int
	faults      map[string]int
	probes      map[string]int
	ends        map[string]int
	porcOK      int
	porcIllegal int
	porcUnknown int
	races       int
	byKey       map[string][]caseDoc
	violCount   map[string]int
	samples     []caseDoc
	notes       []string
	extra       map[string]any
}

func aggregate(outs []*workerOut, dir string) *aggT {
	a := &aggT{faults: map[string]int{}, probes: map[string]int{}, ends: map[string]int{}, byKey: map[string][]caseDoc{}, violCount: map[string]int{}}
	var hashes []uint64
	noteSeen := map[string]bool{}
	for _, o := range outs {
		if o == nil {
			continue
		}
		a.runs += o.Runs
		a.steps += o.Steps
		a.simNs += o.SimNs
		for k, v := range o.Faults {
			a.faults[k] += v
		}
		for k, v := range o.Probes {
			a.probes[k] += v
		}
		for k, v := range o.Ends {
			a.ends[k] += v
		}
		a.porcOK += o.PorcOK
		a.porcIllegal += o.PorcIllegal
		a.porcUnknown += o.PorcUnknown
		a.races += o.RaceReports
		for _, c := range o.Violations {
			if v := violOf(c); v != nil {
				a.byKey[v.key()] = append(a.byKey[v.key()], c)
			}
		}
		for k, n := range o.ViolCount {
			a.violCount[k] += n
		}
		if len(a.samples) < 3 && len(o.Samples) > 0 {
			a.samples = append(a.samples, o.Samples[0])
		}
		for _, n := range o.Notes {
			if !noteSeen[n] {
				noteSeen[n] = true
				a.notes = append(a.notes, n)
			}
		}
		if o.HashFile != "" {
			if b, err := os.ReadFile(o.HashFile); err == nil {
				for i := 0; i+8 <= len(b); i += 8 {
					hashes = append(hashes, binary.LittleEndian.Uint64(b[i:]))
				}
			}
			os.Remove(o.HashFile)
		}
	}
	sort.Slice(hashes, func(i, j int) bool { return hashes[i] < hashes[j] })
	for i := range hashes {
		if i == 0 || hashes[i] != hashes[i-1] {
			a.distinct++
		}
	}
	return a
}

func writeJSON(path string, v any) {
	b, _ := json.MarshalIndent(v, "", " ")
	os.WriteFile(path, append(b, '\n'), 0o644)
}

func writeEvidenceFile(p *propCfg, tier string, seed uint64, a *aggT, reported []map[string]any, wall, buildS, budgetS float64, nW, detN, exit int) {
	cov := map[string]any{
		"evaluations":           a.runs,
		"distinct_nontrivial":   a.distinct,
		"rule":                  p.Rule,
		"samples":               a.samples,
		"exhaustive":            false,
		"simulated_runs":        a.runs,
		"runs_per_hour":         int(float64(a.runs) / (budgetS / 3600)),
		"seeds_per_hour":        int(float64(a.runs) / (budgetS / 3600)),
		"scheduler_steps":       a.steps,
		"simulated_time_ns":     a.simNs,
		"faults_fired":          a.faults,
		"reach_probes":          a.probes,
		"run_endings":           a.ends,
		"porcupine":             map[string]int{"ok": a.porcOK, "illegal": a.porcIllegal, "unknown_inconclusive": a.porcUnknown},
		"race_detector":         map[string]any{"enabled": p.Race, "reports": a.races},
		"real_components":       p.Real,
		"stubbed_components":    p.Stubs,
		"workers":               nW,
		"build_s":               buildS,
		"exploration_budget_s":  budgetS,
		"determinism_selfcheck": map[string]any{"runs_compared": detN, "processes": 2, "gomaxprocs": []int{1, 4}, "identical": !nondetCode},
		"findings":              reported,
		"notes":                 a.notes,
	}
	if confBin != "" {
		cov["companion_worker"] = map[string]any{"engine": "A", "race_detector": true, "built_from": "unrewritten copy of the tree", "runs": confRuns,
			"race_reports": confRaces, "determinism_runs_compared": confDetN}
	}
	for k, v := range a.extra {
		cov[k] = v
	}
	nViol := 0
	for _, r := range reported {
		if r["known_finding"] == nil {
			nViol++
		}
	}
	ev := map[string]any{
		"property_id": p.ID,
		"tier":        tier,
		"seed":        int64(seed & 0x7fffffffffffffff),
		"level":       p.Level,
		"coverage":    cov,
		"assumptions": append([]string{
			"evidence over the seeds explored, not a proof; nothing is enumerated exhaustively",
			"sequential consistency of race-free Go programs (Go memory model): interleaving at atomic/lock/Gosched steps plus a race-detector-clean schedule covers the behaviours the language allows",
		}, p.Assume...),
		"wall_s":     wall,
		"violations": nViol,
	}
	os.MkdirAll(filepath.Join(verifDir, "evidence"), 0o755)
	writeJSON(filepath.Join(verifDir, "evidence", p.ID+".json"), ev)
}

func replayCmd(p *propCfg, file string) int {
	b, err := os.ReadFile(file)
	if err != nil {
		fmt.Fprintln(os.Stderr, err)
		return 2
	}
	var c caseDoc
	if err := json.Unmarshal(b, &c); err != nil {
		fmt.Fprintln(os.Stderr, err)
		return 2
	}
	worker, err := prepare(p, repoDir())
	if err != nil {
		fmt.Fprintf(os.Stderr, "verifctl: %v\n", err)
		cleanup()
		return 2
	}
	want := violOf(c)
	dir := filepath.Join(scratch, p.ID, "out")
	res, v, err := replayOnce(worker, dir, c, true, "replay")
	defer cleanup()
	if err != nil {
		fmt.Fprintf(os.Stderr, "verifctl: %v\n", err)
		return 2
	}
	if v == nil {
		fmt.Printf("replay: no violation (the recorded one was %v)\n", want)
		return 0
	}
	if v.Class == "replay_diverged" {
		// the code under test changed the set of enabled threads: fall back to lenient replay
		res, v, err = replayOnce(worker, dir, c, false, "replay-lenient")
		if err != nil {
			fmt.Fprintf(os.Stderr, "verifctl: %v\n", err)
			return 2
		}
		fmt.Println("replay: strict schedule diverged (code changed?); lenient replay used")
		if v == nil {
			fmt.Println("replay: no violation")
			return 0
		}
	}
	fmt.Printf("VIOLATION property=%s replay=%s\n  class=%s site=%s detail=%s\n", p.ID, file, v.Class, v.Site, v.Detail)
	if tr, ok := res["history"].([]any); ok {
		for _, l := range tr {
			fmt.Println("  ", l)
		}
	}
	if want != nil && want.key() != v.key() {
		fmt.Printf("  note: recorded violation was %s\n", want.key())
	}
	return 1
}
