// Package enga is the Engine-A worker framework: it generates cases, runs them on the real
// golib code under core's scheduler (and the race detector when built with -race), applies the
// property's oracle and reports.
package enga

import (
	"bufio"
	"encoding/binary"
	"flag"
	"fmt"
	"os"
	"regexp"
	"runtime"
	"runtime/debug"
	"sort"
	"strconv"
	"strings"
	"time"

	"harness/sim"

	"github.com/welllog/golib/zzsim/core"
	"github.com/welllog/golib/zzsim/ssync"
)

// Instance is one freshly built structure under test.
type Instance interface {
	// Do executes op on the real structure from simulated thread t and returns its outcome
	// (stamps are filled in by the framework).
	Do(t int, op sim.Op) sim.Rec
}

// Run is everything the oracle may look at.
type Run struct {
	Case *sim.Case
	Inst Instance
	Recs [][]sim.Rec
	Res  *core.Result
	Out  *sim.WorkerOut
}

type Spec struct {
	ID string
	// Gen draws one case (params, programs, scheduler config) from r.
	Gen func(r *sim.Rng, tier string) *sim.Case
	// New builds the structure single-threaded (initial content etc.).
	New func(c *sim.Case) Instance
	// Check is the oracle; nil = property held on this run.
	Check func(run *Run) *sim.Violation
	// Bounded says whether an operation must finish by itself (timed and non-blocking calls) as
	// opposed to one that may legitimately wait for another thread for ever.
	Bounded func(op sim.Op) bool
}

var polNames = map[string]int{"uniform": core.PolUniform, "sticky": core.PolSticky, "pct": core.PolPCT, "lockstep": core.PolLockstep, "script": core.PolScript}

func coreCfg(c *sim.Case, script []int16, strict, keepLog bool) core.Config {
	s := c.Sched
	cfg := core.Config{Seed: s.Seed, Policy: polNames[s.Policy], StickyPct: s.StickyPct, PCTDepth: s.PCTDepth,
		PCTLen: s.PCTLen, Quanta: s.Quanta, FreezeAt: s.FreezeAt, Probe: s.Probe, TickPct: s.TickPct, SpinBurn: s.SpinBurn, ClockJumpPct: s.ClockJumpPct, MaxSteps: s.MaxSteps, KeepLog: keepLog}
	for _, st := range s.Stalls {
		cfg.Stalls = append(cfg.Stalls, core.Stall{T: st.T, At: st.At, For: st.For, AfterW: st.AfterW, AfterS: st.AfterS})
	}
	if script != nil {
		cfg.Policy = core.PolScript
		cfg.Script = script
		cfg.Strict = strict
	}
	return cfg
}

// Exec runs one case.  script==nil: the case's policy decides; otherwise replay.
func Exec(spec *Spec, c *sim.Case, script []int16, strict, keepLog bool, out *sim.WorkerOut) (*Run, *sim.Violation) {
	sim.SetCurrent(c)
	sim.SetSite(spec.ID)
	core.EnvSeed(c.EnvSeed)
	core.PoolReset(c.EnvSeed)
	inst := spec.New(c)
	n := len(c.Programs)
	recs := make([][]sim.Rec, n)
	for t := range recs {
		recs[t] = make([]sim.Rec, len(c.Programs[t]))
	}
	race0 := sim.RaceErrors()
	res := core.Run(coreCfg(c, script, strict, keepLog), n, func(t int) {
		prog := c.Programs[t]
		for i := range prog {
			call := core.OpBegin()
			if spec.Bounded != nil && spec.Bounded(prog[i]) {
				core.OpBounded()
			}
			recs[t][i].Call = call
			recs[t][i].Started = true
			r := inst.Do(t, prog[i])
			ret := core.OpEnd()
			r.Call, r.Ret, r.Started, r.Done = call, ret, true, true
			recs[t][i] = r
		}
	})
	run := &Run{Case: c, Inst: inst, Recs: recs, Res: &res, Out: out}
	c.Schedule = res.Schedule
	c.End = core.EndNames[res.End]
	c.LogHash = sim.Hex(res.LogHash)
	if res.End == core.EndDiverged {
		return run, &sim.Violation{Class: "replay_diverged", Site: "-", Detail: "strict replay: schedule entry not enabled or wrong length"}
	}
	if d := sim.RaceErrors() - race0; d > 0 {
		text := readRaceLog()
		c.RaceText = text
		return run, &sim.Violation{Class: "data_race", Site: raceSite(text), Detail: fmt.Sprintf("%d race report(s) from the Go race detector", d)}
	}
	if len(res.Panics) > 0 {
		return run, &sim.Violation{Class: "panic", Site: panicSite(res.Panics[0]), Detail: firstLine(res.Panics[0])}
	}
	return run, safeCheck(spec, run)
}

// safeCheck runs the oracle; golib code the oracle itself calls single-threaded (final drain,
// final snapshot) may panic on a corrupted structure: that is a violation, not harness trouble.
func safeCheck(spec *Spec, run *Run) (v *sim.Violation) {
	defer func() {
		if r := recover(); r != nil {
			stk := string(debug.Stack())
			fs := golibFuncs(stk)
			if r == ssync.ErrHeld && len(fs) > 0 {
				v = &sim.Violation{Class: "lock_leaked", Site: fs[0], Detail: "every thread has finished but the structure's lock is still held: an operation returned without unlocking"}
				return
			}
			if len(fs) == 0 {
				panic(r) // the harness's own bug: die loudly (exit 2)
			}
			v = &sim.Violation{Class: "panic", Site: fs[0], Detail: fmt.Sprintf("%v (in the single-threaded inspection after the run)", r)}
		}
	}()
	return spec.Check(run)
}

func firstLine(s string) string {
	if i := strings.IndexByte(s, '\n'); i >= 0 {
		return s[:i]
	}
	return s
}

var genericArgs = regexp.MustCompile(`\[[^\]]*\]`)

// golibFuncs extracts, innermost first, the golib (non-zzsim) functions named in a stack dump.
func golibFuncs(text string) []string {
	var out []string
	for _, line := range strings.Split(text, "\n") {
		line = strings.TrimSpace(line)
		if !strings.HasPrefix(line, "github.com/welllog/golib/") || strings.Contains(line, "/zzsim/") {
			continue
		}
		f := strings.TrimPrefix(line, "github.com/welllog/golib/")
		f = genericArgs.ReplaceAllString(f, "")
		// strip the argument list "(...)" at the end of a frame line
		if i := strings.LastIndex(f, "("); i > 0 && strings.HasSuffix(f, ")") {
			f = f[:i]
		}
		// closures: mapz.(*SafeKV).All.func1 -> mapz.(*SafeKV).All
		for {
			j := strings.LastIndex(f, ".")
			if j > 0 && (strings.HasPrefix(f[j+1:], "func") || strings.HasPrefix(f[j+1:], "gowrap") || isDigits(f[j+1:])) {
				f = f[:j]
				continue
			}
			break
		}
		out = append(out, strings.TrimSpace(f))
	}
	return out
}

func isDigits(s string) bool {
	if s == "" {
		return false
	}
	for _, c := range s {
		if c < '0' || c > '9' {
			return false
		}
	}
	return true
}

func panicSite(p string) string {
	fs := golibFuncs(p)
	if len(fs) > 0 {
		return fs[0]
	}
	return "?"
}

// raceSite names a race by the golib API method (outermost golib frame) of each of the two
// accesses of the first report.
func raceSite(text string) string {
	var sites []string
	var cur []string
	in := false
	flush := func() {
		if in {
			fs := golibFuncs(strings.Join(cur, "\n"))
			if len(fs) > 0 {
				sites = append(sites, fs[len(fs)-1])
			} else {
				sites = append(sites, "?")
			}
		}
		in = false
		cur = nil
	}
	for _, line := range strings.Split(text, "\n") {
		t := strings.TrimSpace(line)
		if strings.HasPrefix(t, "Read at") || strings.HasPrefix(t, "Write at") || strings.HasPrefix(t, "Previous read at") ||
			strings.HasPrefix(t, "Previous write at") || strings.HasPrefix(t, "Atomic") || strings.HasPrefix(t, "Previous atomic") {
			flush()
			in = true
			continue
		}
		if t == "" || strings.HasPrefix(t, "Goroutine") || strings.HasPrefix(t, "====") {
			flush()
			if len(sites) >= 2 {
				break
			}
			continue
		}
		if in {
			cur = append(cur, t)
		}
	}
	flush()
	if len(sites) > 2 {
		sites = sites[:2]
	}
	sort.Strings(sites)
	if len(sites) == 0 {
		return "?"
	}
	return strings.Join(sites, "|")
}

var raceLogPath string
var raceLogOff int64

func readRaceLog() string {
	if raceLogPath == "" {
		return ""
	}
	path := fmt.Sprintf("%s.%d", raceLogPath, os.Getpid())
	f, err := os.Open(path)
	if err != nil {
		return ""
	}
	defer f.Close()
	st, _ := f.Stat()
	if st.Size() <= raceLogOff {
		return ""
	}
	buf := make([]byte, st.Size()-raceLogOff)
	f.ReadAt(buf, raceLogOff)
	raceLogOff = st.Size()
	return string(buf)
}

// Main is the worker entry point.
func Main(spec *Spec) {
	mode := flag.String("mode", "explore", "explore | replay")
	seed := flag.Uint64("seed", 1, "VERIF_SEED")
	worker := flag.Int("worker", 0, "worker index")
	budget := flag.Int("budget-ms", 1000, "exploration budget")
	maxRuns := flag.Int("max-runs", 0, "stop after this many runs (0 = budget only)")
	tier := flag.String("tier", "quick", "quick | thorough")
	outPath := flag.String("out", "", "result file")
	casePath := flag.String("case", "", "replay: case file")
	strict := flag.Bool("strict", false, "replay: strict schedule")
	dump := flag.Bool("dump-hashes", false, "record per-run log hashes (determinism self-test)")
	hashOut := flag.String("hash-out", "", "file for distinct nontrivial run hashes")
	reverse := flag.Bool("reverse", false, "with -max-runs: execute the runs in reverse order (self-test: a run must not depend on the runs before it)")
	flag.Parse()

	if p := os.Getenv("VERIF_GOMAXPROCS"); p != "" {
		n := 1
		fmt.Sscan(p, &n)
		runtime.GOMAXPROCS(n)
	} else {
		runtime.GOMAXPROCS(1)
	}
	// GORACE=log_path=<prefix> is set by the driver
	for _, kv := range strings.Fields(os.Getenv("GORACE")) {
		if strings.HasPrefix(kv, "log_path=") {
			raceLogPath = strings.TrimPrefix(kv, "log_path=")
		}
	}
	start := time.Now()
	out := sim.NewWorkerOut(spec.ID, *worker)

	if *mode == "replay" {
		sim.HangAfter = 30 * time.Second // a single case takes milliseconds; generous, because the machine may be busy
	}
	procRun := -1
	if *mode == "process" {
		// replay of a whole worker process up to and including one run (sim.ProcRef)
		c, err := sim.LoadCase(*casePath)
		if err != nil || c.Proc == nil {
			fmt.Fprintln(os.Stderr, "process replay: no process reference in", *casePath, err)
			os.Exit(2)
		}
		sd, _ := strconv.ParseUint(c.Proc.Seed, 10, 64)
		*seed, *worker, *tier = sd, c.Proc.Worker, c.Proc.Tier
		*maxRuns, procRun = c.Proc.Run+1, c.Proc.Run
		*mode = "explore"
	}
	core.SetSimCPUs(*seed, *worker)
	sim.StartWatchdog(out, func() {
		out.WallMs = time.Since(start).Milliseconds()
		sim.WriteJSON(*outPath, out)
	})
	if *mode == "replay" {
		c, err := sim.LoadCase(*casePath)
		if err != nil {
			fmt.Fprintln(os.Stderr, "replay:", err)
			os.Exit(2)
		}
		core.SimCPUs = 4
		if c.Proc != nil {
			sd, _ := strconv.ParseUint(c.Proc.Seed, 10, 64)
			core.SetSimCPUs(sd, c.Proc.Worker)
		}
		want := c.Violation
		// a case without a recorded schedule is re-run from its scheduler seed
		script := c.Schedule
		run, v := Exec(spec, c, script, *strict && script != nil, true, out)
		c.Violation = v
		c.Trace = core.FormatLog(run.Res.Log)
		c.History = FormatHistory(c, run.Recs)
		out.Runs = 1
		if v != nil {
			out.AddViolation(c)
		} else {
			out.Samples = append(out.Samples, c)
		}
		_ = want
		out.WallMs = time.Since(start).Milliseconds()
		if err := sim.WriteJSON(*outPath, out); err != nil {
			fmt.Fprintln(os.Stderr, err)
			os.Exit(2)
		}
		return
	}

	seen := map[uint64]struct{}{}
	deadline := start.Add(time.Duration(*budget) * time.Millisecond)
	for i := 0; ; i++ {
		if *maxRuns > 0 && i >= *maxRuns {
			break
		}
		if *maxRuns == 0 && i&15 == 0 && time.Now().After(deadline) {
			break
		}
		ri := i
		if *reverse && *maxRuns > 0 {
			ri = *maxRuns - 1 - i
		}
		rs := sim.Mix(*seed, spec.ID, *worker, ri)
		r := sim.NewRng(rs)
		c := spec.Gen(r, *tier)
		c.Property = spec.ID
		c.Engine = "A"
		c.Seed = rs >> 12 // informational; 52 bits so that JSON round trips are exact
		c.Proc = &sim.ProcRef{Seed: strconv.FormatUint(*seed, 10), Worker: *worker, Run: ri, Tier: *tier}
		run, v := Exec(spec, c, nil, false, false, out)
		res := run.Res
		out.Runs++
		out.Steps += int64(res.Steps)
		out.SimNs += res.SimNs
		out.Ends[c.End]++
		out.Faults["preemption_inside_op"] += res.Preemptions
		if res.StallsFired > 0 {
			out.Faults["stall"] += res.StallsFired
		}
		if res.Froze {
			out.Faults["freeze"]++
		}
		if res.Ticks > 0 {
			out.Faults["clock_advance"] += res.Ticks
		}
		if res.FairRounds > 0 {
			out.Probes["fair_retry_round"] += res.FairRounds
		}
		if res.ClockJumps > 0 {
			out.Faults["clock_jump_at_a_clock_read"] += res.ClockJumps
		}
		if res.Burns > 0 {
			out.Faults["spin_attempt_burnt_without_progress"] += res.Burns
		}
		for k, n := range res.KindCount {
			if n > 0 {
				out.Probes["step:"+core.Kind(k).String()] += n
			}
		}
		if res.MaxOpen >= 2 && res.Preemptions >= 1 {
			if _, ok := seen[res.LogHash]; !ok {
				seen[res.LogHash] = struct{}{}
			}
		}
		if *dump {
			verdict := "ok"
			if v != nil {
				verdict = v.Key()
			}
			out.RunHashes = append(out.RunHashes, fmt.Sprintf("%d:%s:%s", rs, c.LogHash, verdict))
		}
		if v != nil && (procRun < 0 || ri == procRun) {
			c.Violation = v
			if v.Class == "data_race" {
				out.RaceReports++
			}
			if procRun >= 0 {
				c.ReplayMode = "process"
			}
			out.AddViolation(c)
		} else if len(out.Samples) < 2 && res.MaxOpen >= 2 && res.Preemptions >= 1 {
			// a sample is re-run with the log kept, from its recorded schedule
			c2 := *c
			run2, _ := Exec(spec, &c2, c.Schedule, false, true, sim.NewWorkerOut(spec.ID, *worker))
			c2.Trace = core.FormatLog(run2.Res.Log)
			c2.History = FormatHistory(&c2, run2.Recs)
			out.Samples = append(out.Samples, &c2)
		}
	}
	if *reverse {
		for a, b := 0, len(out.RunHashes)-1; a < b; a, b = a+1, b-1 {
			out.RunHashes[a], out.RunHashes[b] = out.RunHashes[b], out.RunHashes[a]
		}
	}
	out.Nontrivial = len(seen)
	if *hashOut != "" {
		f, err := os.Create(*hashOut)
		if err == nil {
			w := bufio.NewWriter(f)
			var b [8]byte
			for h := range seen {
				binary.LittleEndian.PutUint64(b[:], h)
				w.Write(b[:])
			}
			w.Flush()
			f.Close()
			out.HashFile = *hashOut
		}
	}
	out.WallMs = time.Since(start).Milliseconds()
	if err := sim.WriteJSON(*outPath, out); err != nil {
		fmt.Fprintln(os.Stderr, err)
		os.Exit(2)
	}
}

// FormatHistory renders the recorded operations, ordered by invocation stamp.
func FormatHistory(c *sim.Case, recs [][]sim.Rec) []string {
	type row struct {
		call uint64
		s    string
	}
	var rows []row
	for t := range recs {
		for i, r := range recs[t] {
			if !r.Started {
				continue
			}
			op := c.Programs[t][i]
			ret := "pending"
			if r.Done {
				ret = fmt.Sprintf("%d", r.Ret)
			}
			extra := ""
			if len(r.Ks) > 0 || len(r.Vs) > 0 {
				extra = fmt.Sprintf(" ks=%v vs=%v", r.Ks, r.Vs)
			}
			rows = append(rows, row{r.Call, fmt.Sprintf("[%d,%s] t%d %s(k=%d v=%d d=%d ks=%v) -> ok=%v v=%d%s", r.Call, ret, t, op.Op, op.K, op.V, op.D, op.Ks, r.OK, r.V, extra)})
		}
	}
	sort.Slice(rows, func(a, b int) bool { return rows[a].call < rows[b].call })
	out := make([]string, len(rows))
	for i := range rows {
		out[i] = rows[i].s
	}
	return out
}

// ---------------------------------------------------------------------------------------
// helpers shared by the oracles

// Overlapped reports whether any other started operation overlaps rec (pending ones extend
// to infinity).
func Overlapped(recs [][]sim.Rec, t, i int) bool {
	a := recs[t][i]
	aEnd := a.Ret
	if !a.Done {
		aEnd = ^uint64(0)
	}
	for u := range recs {
		for j, b := range recs[u] {
			if (u == t && j == i) || !b.Started {
				continue
			}
			bEnd := b.Ret
			if !b.Done {
				bEnd = ^uint64(0)
			}
			if b.Call < aEnd && a.Call < bEnd {
				return true
			}
		}
	}
	return false
}

// GenSched draws a scheduler configuration (swarm).
func GenSched(r *sim.Rng, nThreads, totalOps int, probe int, allowFreeze bool) *sim.SchedCfg {
	s := &sim.SchedCfg{Seed: r.U64() >> 12, FreezeAt: -1, Probe: probe, MaxSteps: 20000}
	switch r.Pick(6, 8, 6, 1) {
	case 3:
		s.Policy = "lockstep"
		for t := 0; t < nThreads+1; t++ {
			s.Quanta = append(s.Quanta, r.Range(1, 6))
		}
	case 0:
		s.Policy = "uniform"
	case 1:
		s.Policy = "sticky"
		s.StickyPct = []int{50, 80, 90, 97}[r.N(4)]
	case 2:
		s.Policy = "pct"
		s.PCTDepth = r.Range(1, 4)
		s.PCTLen = totalOps*6 + 4
	}
	est := totalOps*6 + 4
	if nThreads > 1 && r.Pct(30) {
		k := r.Range(1, 2)
		for i := 0; i < k; i++ {
			st := sim.Stall{T: r.N(nThreads), At: r.N(est), For: r.Range(5, est)}
			if r.Pct(30) {
				st.AfterW = r.Range(1, 8) // preempted right after one of its writes
			}
			s.Stalls = append(s.Stalls, st)
		}
	}
	if probe >= 0 && allowFreeze && r.Pct(50) {
		s.FreezeAt = r.N(est)
	}
	if r.Pct(6) {
		// long spinning: a waiter burns hundreds to more than a thousand attempts while nobody
		// makes progress (a stalled peer), so that bounded-spin fallbacks are reached; the
		// peer's stall and the freeze point are stretched to the same time scale
		s.SpinBurn = []int{150, 300, 600, 1100, 1300}[r.N(5)]
		s.MaxSteps = 40000
		if nThreads > 1 {
			s.Stalls = []sim.Stall{{T: r.N(nThreads), At: r.N(est), For: r.Range(s.SpinBurn, s.SpinBurn*8)}}
			if r.Pct(50) {
				// the peer stays descheduled until the waiters have used up the whole budget
				s.Stalls[0].At = r.N(est/2 + 1)
				s.Stalls[0].For = -1
				if r.Pct(60) {
					s.Stalls[0].AfterW = r.Range(1, 5)
				}
			}
		}
		if probe >= 0 && allowFreeze && r.Pct(60) {
			s.FreezeAt = r.Range(s.SpinBurn, s.SpinBurn*6)
		}
		if r.Bool() {
			// while somebody waits that long, wall-clock time passes in big steps
			s.ClockJumpPct = []int{5, 25, 60}[r.N(3)]
		}
	} else if r.Pct(3) {
		s.ClockJumpPct = []int{2, 10}[r.N(2)] // the clock is stepped, or the process descheduled, at a clock read
	}
	return s
}
