package enga

import (
	"time"

	"github.com/anishathalye/porcupine"
)

// Sequential FIFO specification handed to porcupine (DESIGN A.4).  The state is the queue
// content encoded as a string (3 bytes per value) so that == is state equality.
const (
	QPush = iota
	QPop
	QLen
	QEmpty
	QFull
	QPushMaybe // pending push: may or may not have taken effect
	QPopMaybe  // pending pop: may or may not have taken a value
)

type QIn struct {
	Kind int
	V    int
}

type QOut struct {
	OK bool
	V  int
}

func qEnc(v int) string { return string([]byte{byte(v >> 16), byte(v >> 8), byte(v)}) }

func QState(vals []int) string {
	s := ""
	for _, v := range vals {
		s += qEnc(v)
	}
	return s
}

// QueueModel returns the FIFO model; cap < 0 means unbounded.
func QueueModel(cap int, init []int) porcupine.Model {
	nm := porcupine.NondeterministicModel{
		Init: func() []interface{} { return []interface{}{QState(init)} },
		Step: func(state, input, output interface{}) []interface{} {
			s := state.(string)
			in := input.(QIn)
			out := output.(QOut)
			n := len(s) / 3
			switch in.Kind {
			case QPush:
				if out.OK {
					if cap >= 0 && n >= cap {
						return nil
					}
					return []interface{}{s + qEnc(in.V)}
				}
				if cap >= 0 && n == cap {
					return []interface{}{s}
				}
				return nil
			case QPop:
				if out.OK {
					if n > 0 && s[:3] == qEnc(out.V) {
						return []interface{}{s[3:]}
					}
					return nil
				}
				if n == 0 {
					return []interface{}{s}
				}
				return nil
			case QLen:
				if out.V == n {
					return []interface{}{s}
				}
				return nil
			case QEmpty:
				if out.OK == (n == 0) {
					return []interface{}{s}
				}
				return nil
			case QFull:
				if out.OK == (cap >= 0 && n == cap) {
					return []interface{}{s}
				}
				return nil
			case QPushMaybe:
				if cap >= 0 && n >= cap {
					return []interface{}{s}
				}
				return []interface{}{s, s + qEnc(in.V)}
			case QPopMaybe:
				if n == 0 {
					return []interface{}{s}
				}
				return []interface{}{s, s[3:]}
			}
			return nil
		},
	}
	return nm.ToModel()
}

const Infinity = int64(1) << 60

// CheckLin runs porcupine with a 2 s timeout (linearizability checking is NP-hard; histories are
// kept short by the generators); Unknown is inconclusive, never a verdict.
func CheckLin(m porcupine.Model, ops []porcupine.Operation) porcupine.CheckResult {
	return porcupine.CheckOperationsTimeout(m, ops, 2*time.Second)
}
