// Package engc is the Engine-C worker framework: sequential simulation.  One thread, so no
// scheduler; the seed decides the operation history AND every decision of the environment
// (clock readings, entropy bytes and failures, tower-height words, map iteration order,
// reader/writer chunking and faults).  Oracles are reference models stepped alongside.
package engc

import (
	"bufio"
	"encoding/binary"
	"encoding/json"
	"flag"
	"fmt"
	"hash/fnv"
	"os"
	"runtime"
	"runtime/debug"
	"strconv"
	"strings"
	"time"

	"harness/sim"

	"github.com/welllog/golib/zzsim/core"
)

type Spec struct {
	ID string
	// Gen draws one case (ops + env decisions) from r.
	Gen func(r *sim.Rng, tier string) *sim.Case
	// Exec runs the case on the real code, returns the violation (nil = held), whether the
	// run was non-trivial (>=1 injected fault or adversarial seam decision that fired) and
	// leaves a digest of everything observed in c.LogHash.
	Exec func(c *sim.Case, out *sim.WorkerOut) (v *sim.Violation, nontrivial bool)
	// Extra, if set, runs once per worker (worker 0 only) for fixed tables; returns violations.
	Extra func(out *sim.WorkerOut) []*sim.Case
}

// Digest accumulates observed outputs (for the determinism self-test).
type Digest struct{ h uint64 }

func NewDigest() *Digest { return &Digest{h: 14695981039346656037} }

func (d *Digest) Add(vals ...any) {
	s := fmt.Sprint(vals...)
	for i := 0; i < len(s); i++ {
		d.h ^= uint64(s[i])
		d.h *= 1099511628211
	}
	d.h ^= 0xff
	d.h *= 1099511628211
}

func (d *Digest) Hex() string { return sim.Hex(d.h) }

// Call runs f, turning a panic into a violation attributed to site.
func Call(site string, f func()) (v *sim.Violation) {
	sim.SetSite(site)
	defer func() {
		if r := recover(); r != nil {
			stk := string(debug.Stack())
			v = &sim.Violation{Class: "panic", Site: site, Detail: fmt.Sprintf("%v (at %s)", r, panicFrame(stk))}
		}
	}()
	f()
	return nil
}

// safeExtra runs the fixed tables; a panic of golib code in there is a violation.
func safeExtra(spec *Spec, out *sim.WorkerOut) (cs []*sim.Case) {
	defer func() {
		if r := recover(); r != nil {
			stk := string(debug.Stack())
			fr := panicFrame(stk)
			if fr == "?" {
				panic(r) // not in golib: the harness's own bug
			}
			cs = append(cs, &sim.Case{Params: map[string]int{"scen": -1, "extra_table": 1}, Violation: &sim.Violation{Class: "panic", Site: spec.ID + " fixed tables", Detail: fmt.Sprintf("%v (at %s)", r, fr)}})
		}
	}()
	return spec.Extra(out)
}

func panicFrame(stk string) string {
	lines := strings.Split(stk, "\n")
	for i, l := range lines {
		if strings.HasPrefix(l, "github.com/welllog/golib/") && !strings.Contains(l, "/zzsim/") && i+1 < len(lines) {
			loc := strings.TrimSpace(lines[i+1])
			if j := strings.Index(loc, "/golib/"); j >= 0 {
				loc = loc[j+len("/golib/"):]
			}
			if j := strings.Index(loc, " +0x"); j >= 0 {
				loc = loc[:j]
			}
			return loc
		}
	}
	return "?"
}

func caseHash(c *sim.Case) uint64 {
	h := fnv.New64a()
	b, _ := json.Marshal(struct {
		P map[string]int
		O []sim.Op
		E map[string]any
		S uint64
	}{c.Params, c.Ops, c.Env, c.EnvSeed})
	h.Write(b)
	return h.Sum64()
}

func Main(spec *Spec) {
	mode := flag.String("mode", "explore", "explore | replay")
	seed := flag.Uint64("seed", 1, "VERIF_SEED")
	worker := flag.Int("worker", 0, "worker index")
	budget := flag.Int("budget-ms", 1000, "exploration budget")
	maxRuns := flag.Int("max-runs", 0, "stop after this many runs (0 = budget only)")
	tier := flag.String("tier", "quick", "quick | thorough")
	outPath := flag.String("out", "", "result file")
	casePath := flag.String("case", "", "replay: case file")
	_ = flag.Bool("strict", false, "replay: (ignored, sequential runs have no schedule)")
	dump := flag.Bool("dump-hashes", false, "record per-run digests (determinism self-test)")
	hashOut := flag.String("hash-out", "", "file for distinct nontrivial run hashes")
	reverse := flag.Bool("reverse", false, "with -max-runs: execute the runs in reverse order (self-test: a run must not depend on the runs before it)")
	flag.Parse()

	start := time.Now()
	out := sim.NewWorkerOut(spec.ID, *worker)

	finish := func() {
		out.WallMs = time.Since(start).Milliseconds()
		if err := sim.WriteJSON(*outPath, out); err != nil {
			fmt.Fprintln(os.Stderr, err)
			os.Exit(2)
		}
	}
	if *mode == "replay" {
		sim.HangAfter = 30 * time.Second // a single case takes milliseconds; generous, because the machine may be busy
	}
	procRun := -1
	if *mode == "process" {
		// replay of a whole worker process up to and including one run (sim.ProcRef)
		c, err := sim.LoadCase(*casePath)
		if err != nil || c.Proc == nil {
			fmt.Fprintln(os.Stderr, "process replay: no process reference in", *casePath, err)
			os.Exit(2)
		}
		sd, _ := strconv.ParseUint(c.Proc.Seed, 10, 64)
		*seed, *worker, *tier = sd, c.Proc.Worker, c.Proc.Tier
		*maxRuns, procRun = c.Proc.Run+1, c.Proc.Run
		*mode = "explore"
	}
	core.SetSimCPUs(*seed, *worker)
	sim.StartWatchdog(out, finish)
	if *mode == "replay" {
		c, err := sim.LoadCase(*casePath)
		if err != nil {
			fmt.Fprintln(os.Stderr, "replay:", err)
			os.Exit(2)
		}
		core.SimCPUs = 4
		if c.Proc != nil {
			sd, _ := strconv.ParseUint(c.Proc.Seed, 10, 64)
			core.SetSimCPUs(sd, c.Proc.Worker)
		}
		want := c.Violation
		c.Violation = nil
		sim.SetCurrent(c)
		var v *sim.Violation
		if c.P("extra_table") == 1 && spec.Extra != nil {
			// a finding of the fixed tables: replay = run the tables again
			for _, ec := range safeExtra(spec, out) {
				if v == nil || (want != nil && ec.Violation.Key() == want.Key()) {
					v = ec.Violation
				}
			}
			c.LogHash = "tables"
		} else {
			core.PoolReset(c.EnvSeed)
			core.BaseGoroutines = runtime.NumGoroutine()
			v, _ = spec.Exec(c, out)
		}
		c.Violation = v
		out.Runs = 1
		if v != nil {
			out.AddViolation(c)
		} else {
			out.Samples = append(out.Samples, c)
		}
		out.WallMs = time.Since(start).Milliseconds()
		if err := sim.WriteJSON(*outPath, out); err != nil {
			fmt.Fprintln(os.Stderr, err)
			os.Exit(2)
		}
		return
	}

	if spec.Extra != nil && *worker == 0 && *maxRuns == 0 {
		for _, c := range safeExtra(spec, out) {
			c.Property, c.Engine = spec.ID, "C"
			out.AddViolation(c)
		}
	}
	seen := map[uint64]struct{}{}
	deadline := start.Add(time.Duration(*budget) * time.Millisecond)
	for i := 0; ; i++ {
		if *maxRuns > 0 && i >= *maxRuns {
			break
		}
		if *maxRuns == 0 && i&7 == 0 && time.Now().After(deadline) {
			break
		}
		ri := i
		if *reverse && *maxRuns > 0 {
			ri = *maxRuns - 1 - i
		}
		rs := sim.Mix(*seed, spec.ID, *worker, ri)
		r := sim.NewRng(rs)
		c := spec.Gen(r, *tier)
		c.Property, c.Engine, c.Seed = spec.ID, "C", rs>>12
		c.Proc = &sim.ProcRef{Seed: strconv.FormatUint(*seed, 10), Worker: *worker, Run: ri, Tier: *tier}
		sim.SetCurrent(c)
		core.PoolReset(c.EnvSeed)
		core.BaseGoroutines = runtime.NumGoroutine()
		v, nontrivial := spec.Exec(c, out)
		out.Runs++
		out.Steps += int64(len(c.Ops))
		if nontrivial {
			seen[caseHash(c)] = struct{}{}
		}
		if *dump {
			verdict := "ok"
			if v != nil {
				verdict = v.Key()
			}
			out.RunHashes = append(out.RunHashes, fmt.Sprintf("%d:%s:%s", rs, c.LogHash, verdict))
		}
		if v != nil && (procRun < 0 || ri == procRun) {
			c.Violation = v
			if procRun >= 0 {
				c.ReplayMode = "process"
			}
			out.AddViolation(c)
		} else if len(out.Samples) < 2 && nontrivial {
			out.Samples = append(out.Samples, c)
		}
	}
	if *reverse {
		for a, b := 0, len(out.RunHashes)-1; a < b; a, b = a+1, b-1 {
			out.RunHashes[a], out.RunHashes[b] = out.RunHashes[b], out.RunHashes[a]
		}
	}
	out.Nontrivial = len(seen)
	if *hashOut != "" {
		if f, err := os.Create(*hashOut); err == nil {
			w := bufio.NewWriter(f)
			var b [8]byte
			for h := range seen {
				binary.LittleEndian.PutUint64(b[:], h)
				w.Write(b[:])
			}
			w.Flush()
			f.Close()
			out.HashFile = *hashOut
		}
	}
	out.WallMs = time.Since(start).Milliseconds()
	if err := sim.WriteJSON(*outPath, out); err != nil {
		fmt.Fprintln(os.Stderr, err)
		os.Exit(2)
	}
}
