// C12 — SafeKV is data-race free and every operation is atomic (Engine A).
package main

import (
	"fmt"
	"sort"
	"strconv"
	"strings"

	"harness/enga"
	"harness/sim"

	"github.com/anishathalye/porcupine"
	"github.com/welllog/golib/mapz"
	"github.com/welllog/golib/zzsim/core"
)

// nKeys is the size of the key space of a run (4 mostly; 8 or 16 rarely).
var nKeys = 4

// kvAPI is the map seen through int keys and values; key and value types of the real SafeKV vary
// per case (elem), so that a change which is wrong only for some instantiation does not hide
// behind SafeKV[int, int].
type kvAPI interface {
	Get(int) (int, bool)
	Set(int, int)
	SetNx(int, int) bool
	SetX(int, int) bool
	Delete(...int)
	Has(int) bool
	Contains(int) bool
	Len() int
	Keys() []int
	Values() []int
	Range(func(k, v int) bool)
	All(func(k, v int) bool)
	AllSeq() func(func(k, v int) bool)
	GetWithMap(ks []int, ballast int) []int
	GetWithLock(int, func(int))
	MapMove(k0, k1 int) (int, bool)
	MapSetLen(k, v int) int
	Clear()
	Final(nKeys int) (ks, vs []int)
	MapCall(f func())
}

type kvOf[K comparable, V any] struct {
	m  *mapz.SafeKV[K, V]
	ek func(int) K
	dk func(K) int
	ev func(int) V
	dv func(V) int
}

func (a *kvOf[K, V]) Get(k int) (int, bool) {
	v, ok := a.m.Get(a.ek(k))
	if !ok {
		return 0, false
	}
	return a.dv(v), true
}
func (a *kvOf[K, V]) Set(k, v int)        { a.m.Set(a.ek(k), a.ev(v)) }
func (a *kvOf[K, V]) SetNx(k, v int) bool { return a.m.SetNx(a.ek(k), a.ev(v)) }
func (a *kvOf[K, V]) SetX(k, v int) bool  { return a.m.SetX(a.ek(k), a.ev(v)) }
func (a *kvOf[K, V]) Delete(ks ...int) {
	var kk []K
	if ks != nil {
		kk = make([]K, len(ks))
		for i, k := range ks {
			kk[i] = a.ek(k)
		}
	}
	a.m.Delete(kk...)
}
func (a *kvOf[K, V]) Has(k int) bool      { return a.m.Has(a.ek(k)) }
func (a *kvOf[K, V]) Contains(k int) bool { return a.m.Contains(a.ek(k)) }
func (a *kvOf[K, V]) Len() int            { return a.m.Len() }
func (a *kvOf[K, V]) Keys() []int {
	ks := a.m.Keys()
	out := make([]int, len(ks))
	for i, k := range ks {
		out[i] = a.dk(k)
	}
	return out
}
func (a *kvOf[K, V]) Values() []int {
	vs := a.m.Values()
	if vs == nil {
		return nil
	}
	out := make([]int, len(vs))
	for i, v := range vs {
		out[i] = a.dv(v)
	}
	return out
}
func (a *kvOf[K, V]) Range(f func(k, v int) bool) {
	a.m.Range(func(k K, v V) bool { return f(a.dk(k), a.dv(v)) })
}
func (a *kvOf[K, V]) All(f func(k, v int) bool) {
	for k, v := range a.m.All() {
		if !f(a.dk(k), a.dv(v)) {
			break
		}
	}
}

// AllSeq obtains the All() sequence now; the returned function iterates it (later, any number
// of times): a sequence is a value a caller may keep.
func (a *kvOf[K, V]) AllSeq() func(func(k, v int) bool) {
	seq := a.m.All()
	return func(f func(k, v int) bool) {
		for k, v := range seq {
			if !f(a.dk(k), a.dv(v)) {
				break
			}
		}
	}
}
func (a *kvOf[K, V]) GetWithMap(ks []int, ballast int) []int {
	m := map[K]V{}
	for _, k := range ks {
		m[a.ek(k)] = a.ev(-1)
	}
	// a big argument map: thousands of further keys the SafeKV does not hold
	for i := 0; i < ballast; i++ {
		m[a.ek(10000+i)] = a.ev(-1)
	}
	a.m.GetWithMap(m)
	var out []int
	for _, k := range ks {
		out = append(out, a.dv(m[a.ek(k)]))
	}
	return out
}
func (a *kvOf[K, V]) GetWithLock(k int, f func(int)) {
	a.m.GetWithLock(a.ek(k), func(v V) { f(a.dv(v)) })
}
func (a *kvOf[K, V]) MapMove(k0, k1 int) (val int, moved bool) {
	// atomic compound on the inner map: move the binding of k0 to k1
	a.m.Map(func(kv mapz.KV[K, V]) {
		if v, ok := kv[a.ek(k0)]; ok {
			delete(kv, a.ek(k0))
			kv[a.ek(k1)] = v
			val, moved = a.dv(v), true
		}
	})
	return
}
func (a *kvOf[K, V]) MapSetLen(k, v int) (n int) {
	a.m.Map(func(kv mapz.KV[K, V]) {
		kv.Set(a.ek(k), a.ev(v))
		n = kv.Len()
	})
	return
}
func (a *kvOf[K, V]) Clear() { a.m.Clear() }

// MapCall runs f as the callback of Map, i.e. under this map's write lock.
func (a *kvOf[K, V]) MapCall(f func()) { a.m.Map(func(mapz.KV[K, V]) { f() }) }
func (a *kvOf[K, V]) Final(nKeys int) (ks, vs []int) {
	a.m.Map(func(kv mapz.KV[K, V]) {
		for k := 0; k < nKeys; k++ {
			if v, ok := kv[a.ek(k)]; ok {
				ks = append(ks, k)
				vs = append(vs, a.dv(v))
			}
		}
		if len(kv) != len(ks) {
			ks = append(ks, -1) // foreign key: cannot match any model state
			vs = append(vs, -1)
		}
	})
	return
}

type skey struct {
	A int
	B string
}

type triple struct {
	A int
	B int64
	C uint64
}

const tornBase = 0x7ead0000

func newKV(elem, capHint int) kvAPI {
	switch elem {
	case 1:
		return &kvOf[string, string]{m: mapz.NewSafeKV[string, string](capHint),
			ek: func(k int) string {
				if k == 0 {
					return "" // key 0 is the zero value of the key type
				}
				return "k" + strconv.Itoa(k)
			},
			dk: func(s string) int {
				if s == "" {
					return 0
				}
				n, err := strconv.Atoi(strings.TrimPrefix(s, "k"))
				if err != nil {
					return -7
				}
				return n
			},
			ev: func(v int) string {
				if v == 0 {
					return ""
				}
				return strconv.Itoa(v)
			},
			dv: func(s string) int {
				if s == "" {
					return 0
				}
				n, err := strconv.Atoi(s)
				if err != nil {
					return tornBase + len(s)
				}
				return n
			}}
	case 2:
		return &kvOf[skey, triple]{m: mapz.NewSafeKV[skey, triple](capHint),
			ek: func(k int) skey {
				if k == 0 {
					return skey{}
				}
				return skey{k, "k" + strconv.Itoa(k&3)}
			},
			dk: func(s skey) int {
				if s == (skey{}) {
					return 0
				}
				if s.B != "k"+strconv.Itoa(s.A&3) {
					return -7
				}
				return s.A
			},
			ev: func(v int) triple {
				if v == 0 {
					return triple{}
				}
				return triple{v, ^int64(v), uint64(v) * 3}
			},
			dv: func(t triple) int {
				if t == (triple{}) {
					return 0
				}
				if t.B != ^int64(t.A) || t.C != uint64(t.A)*3 {
					return tornBase + 1000 + t.A&0xff
				}
				return t.A
			}}
	case 3:
		return &kvOf[any, *int]{m: mapz.NewSafeKV[any, *int](capHint),
			ek: func(k int) any {
				if k == 0 {
					return nil // the nil interface is a legitimate map key
				}
				return k
			},
			dk: func(x any) int {
				if n, ok := x.(int); ok {
					return n
				}
				if x == nil {
					return 0
				}
				return -7
			},
			ev: func(v int) *int {
				if v == 0 {
					return nil
				}
				return &v
			},
			dv: func(p *int) int {
				if p == nil {
					return 0
				}
				return *p
			}}
	}
	if elem == 4 {
		// a set: zero-size values (the generator stores value 0 only, and leaves GetWithMap out,
		// whose "untouched placeholder" cannot be told from a stored value here)
		id := func(v int) int { return v }
		return &kvOf[int, struct{}]{m: mapz.NewSafeKV[int, struct{}](capHint), ek: id, dk: id,
			ev: func(int) struct{} { return struct{}{} }, dv: func(struct{}) int { return 0 }}
	}
	id := func(v int) int { return v }
	return &kvOf[int, int]{m: mapz.NewSafeKV[int, int](capHint), ek: id, dk: id, ev: id, dv: id}
}

type inst struct {
	m    kvAPI
	init map[int]int
	// the twin: a second map of the same types that every thread uses alternately with the first:
	// before each operation it stores a fresh value under a key only this thread writes, after
	// it the value must still be there.  Two maps share nothing (package-level caches, pools or
	// locks would couple them).
	tw     kvAPI
	elem   int
	others []kvAPI
	twN    [16]int
	twErr  [16]string
	// All() sequences obtained before the map received its initial contents, one per thread
	early [16]func(func(k, v int) bool)
}

func (x *inst) Do(t int, op sim.Op) sim.Rec {
	if x.tw != nil && t < len(x.twN) {
		x.twN[t]++
		k, v := 200+t*4+x.twN[t]%3, t<<16|x.twN[t]
		x.tw.Set(k, v)
		defer func() {
			if got, ok := x.tw.Get(k); (!ok || got != v) && x.twErr[t] == "" {
				x.twErr[t] = fmt.Sprintf("twin map (used alternately with the first by every thread): thread %d stored %#x under its own key %d and read back %#x, %v", t, v, k, got, ok)
			}
		}()
	}
	var r sim.Rec
	op = clampOp(op)
	switch op.Op {
	case "Get":
		r.V, r.OK = x.m.Get(op.K)
	case "Set":
		x.m.Set(op.K, op.V)
		r.OK = true
	case "SetNx":
		r.OK = x.m.SetNx(op.K, op.V)
	case "SetX":
		r.OK = x.m.SetX(op.K, op.V)
	case "Delete":
		x.m.Delete(op.Ks...)
		r.OK = true
	case "Has":
		r.OK = x.m.Has(op.K)
	case "Contains":
		r.OK = x.m.Contains(op.K)
	case "Len":
		r.V = x.m.Len()
		r.OK = true
	case "Keys":
		r.Ks = x.m.Keys()
		if r.Ks == nil {
			r.Ks = []int{}
		}
		r.OK = true
	case "Values":
		r.Vs = x.m.Values()
		r.OK = true
	case "Range":
		n := 0
		x.m.Range(func(k, v int) bool {
			r.Ks = append(r.Ks, k)
			r.Vs = append(r.Vs, v)
			n++
			return op.D == 0 || n < op.D
		})
		r.OK = true
	case "All":
		n := 0
		all := x.m.All
		if op.S == "early" && t < len(x.early) && x.early[t] != nil {
			all = x.early[t]
		}
		all(func(k, v int) bool {
			r.Ks = append(r.Ks, k)
			r.Vs = append(r.Vs, v)
			n++
			return op.D == 0 || n < op.D
		})
		r.OK = true
	case "GetWithMap":
		r.Vs = x.m.GetWithMap(op.Ks, op.D)
		r.OK = true
	case "GetWithLock":
		x.m.GetWithLock(op.K, func(v int) {
			r.OK = true
			r.V = v
		})
	case "MapMove":
		r.V, r.OK = x.m.MapMove(op.Ks[0], op.Ks[1])
	case "MapSetLen":
		r.V = x.m.MapSetLen(op.K, op.V)
		r.OK = true
	case "Clear":
		x.m.Clear()
		r.OK = true
	case "MapOthers":
		// a callback that runs under this map's lock uses OTHER maps (many of them): maps share
		// nothing, so this can neither block nor disturb anybody
		x.m.MapCall(func() {
			for i, o := range x.others {
				o.Set(400+t, i)
				if v, ok := o.Get(400 + t); !ok || v != i {
					r.V = -1
				}
			}
		})
		r.OK = r.V == 0
	case "Fresh":
		// a map created while the others are in use (capacity hint 0 or small): private
		f := newKV(x.elem, []int{0, 0, 1, 4}[(t+op.V)%4])
		k, v := 300+t, t<<16|op.V|1
		n0 := f.Len()
		nx := f.SetNx(k, v)
		got, ok := f.Get(k)
		ks := f.Keys()
		n1 := f.Len()
		f.Delete(k)
		n2 := f.Len()
		if x.elem == 4 {
			v = 0
		}
		r.OK = n0 == 0 && nx && ok && got == v && len(ks) == 1 && ks[0] == k && n1 == 1 && n2 == 0
		r.Vs = []int{n0, n1, n2, got, len(ks)}
	default:
		panic("c12: unknown op " + op.Op)
	}
	return r
}

func clampOp(op sim.Op) sim.Op { return clampOpN(op, nKeys) }

// clampOpN, encN, dec and step do not read the global nKeys: porcupine's checker goroutines may
// still be winding down after a timed-out check when the next case is being built.
func clampOpN(op sim.Op, nKeys int) sim.Op {
	op.K = ((op.K % nKeys) + nKeys) % nKeys
	if len(op.Ks) > 0 {
		ks := make([]int, len(op.Ks))
		for i, k := range op.Ks {
			ks[i] = ((k % nKeys) + nKeys) % nKeys
		}
		op.Ks = ks
	}
	if op.Op == "MapMove" && (len(op.Ks) < 2 || op.Ks[0] == op.Ks[1]) {
		op.Ks = []int{op.K, (op.K + 1) % nKeys}
	}
	return op
}

var opNames = []string{"Get", "Set", "SetNx", "SetX", "Delete", "Has", "Contains", "Len", "Keys", "Values", "Range", "All",
	"GetWithMap", "GetWithLock", "MapMove", "MapSetLen", "Clear", "Fresh", "MapOthers"}

func gen(r *sim.Rng, tier string) *sim.Case {
	maxT, maxOps := 4, 4
	if tier == "thorough" {
		maxT, maxOps = 5, 7
	}
	c := &sim.Case{Params: map[string]int{}}
	nKeys = []int{4, 4, 4, 4, 4, 4, 4, 8, 8, 16}[r.N(10)]
	if r.Pct(2) {
		nKeys = 32
	}
	if r.Pct(2) {
		nKeys = []int{70, 100, 130}[r.N(3)] // rare: a map larger than any plausible batch size
		c.Params["init_pct"] = r.Range(50, 100)
	}
	big := r.N(1000) < 5
	if big {
		// a big map (thousands of live entries, nearly all of them present from the start):
		// whatever an implementation does differently from some size on - recycling, chunked
		// copies, background clean-up - happens here; Clear is frequent
		nKeys = []int{8192, 8200, 10000, 16390, 65536, 65600, 70000}[r.Pick(8, 8, 8, 8, 1, 1, 1)] // (the biggest cost a tenth of a second per run)
		c.Params["init_pct"] = 100 - r.N(2)*r.N(3)
	}
	c.Params["nkeys"] = nKeys
	if r.Pct(8) {
		c.Params["twin"] = 1 // a second map is used alternately by every thread
	}
	early := r.Pct(10)
	if early {
		c.Params["early"] = 1 // every thread holds an All() sequence obtained before the map was filled
	}
	if r.N(1000) < 4 {
		c.Params["warm"] = 1 + r.N(12) // a long earlier life (tens of thousands of keys stored and deleted)
	}
	c.Params["elem"] = r.Pick(6, 3, 3, 2, 2) // key/value types: int/int, string/string, struct/three-word struct, interface/pointer, int/struct{}
	if nKeys <= 32 {
		c.Params["init_mask"] = r.N(1 << nKeys)
	}
	nT := r.Range(2, maxT)
	if r.Pct(10) {
		nT = 1
	}
	if r.Pct(3) {
		nT, maxOps = r.Range(6, 8), 2
	}
	if big && nT < 2 {
		nT = 2
	}
	// swarm: a random subset of methods gets weight
	w := make([]int, len(opNames))
	for i := range w {
		if r.Pct(55) {
			w[i] = r.Range(1, 4)
		}
	}
	w[len(w)-1], w[len(w)-2] = 0, 0
	if r.Pct(12) {
		w[len(w)-2] = 1 // Fresh: a new map is created (and used) while the others are in use
	}
	if r.Pct(4) {
		c.Params["others"] = 1 // MapOthers: callbacks under the lock use 96 other maps
		w[len(w)-1] = 2
	}
	if big {
		w[16] += 14 // Clear
		w[7] += 2   // Len
	}
	w[1+r.N(3)] += 2 // always some writer
	if c.Params["elem"] == 4 {
		w[12] = 0 // GetWithMap
	}
	total := 0
	zeroStored := false
	for t := 0; t < nT; t++ {
		n := r.Range(1, maxOps)
		var prog []sim.Op
		for i := 0; i < n; i++ {
			k := r.Pick(w...)
			op := sim.Op{Op: opNames[k], K: r.N(nKeys), V: (t+1)<<8 | (i + 1)}
			if !zeroStored && r.Pct(4) {
				op.V, zeroStored = 0, true // the zero value of the value type is a value like any other
			}
			if c.Params["elem"] == 4 {
				op.V = 0
			}
			switch op.Op {
			case "Delete":
				for j := r.Range(0, 3); j > 0; j-- {
					op.Ks = append(op.Ks, r.N(nKeys))
				}
				if r.Pct(15) {
					// a bulk Delete: many keys (with repetitions; the key space is small), the
					// keys that matter placed anywhere in the list
					n := []int{17, 33, 65, 70, 129, 300}[r.N(6)]
					filler := r.N(nKeys)
					op.Ks = op.Ks[:0]
					for j := 0; j < n; j++ {
						op.Ks = append(op.Ks, filler)
					}
					for j := r.Range(1, 3); j > 0; j-- {
						op.Ks[r.N(n)] = r.N(nKeys)
					}
					op.Ks[n-1] = r.N(nKeys)
				}
			case "GetWithMap":
				if r.N(1000) < 5 && c.Params["elem"] <= 1 {
					op.D = []int{4095, 4096, 4097, 5000, 9000}[r.N(5)] // a big argument map
				}
				seen := map[int]bool{}
				for j := r.Range(1, 3) + r.Pick(9, 1)*r.N(nKeys); j > 0; j-- {
					k := r.N(nKeys)
					if !seen[k] {
						seen[k] = true
						op.Ks = append(op.Ks, k)
					}
				}
			case "MapMove":
				a := r.N(nKeys)
				op.Ks = []int{a, (a + 1 + r.N(nKeys-1)) % nKeys}
			case "Range", "All":
				op.D = r.N(4) // 0 = full
				if r.Pct(15) {
					op.D = r.N(nKeys + 1)
				}
				if op.Op == "All" && early && r.Pct(60) {
					op.S = "early" // iterate the sequence obtained when the map was still empty
				}
			}
			prog = append(prog, op)
		}
		total += n
		c.Programs = append(c.Programs, prog)
	}
	c.Sched = enga.GenSched(r, nT, total, -1, false)
	if r.Pct(2) {
		// a slow snapshot: one thread makes a single snapshot call (sometimes with a very big
		// argument map) and is descheduled at one or two of its own steps, each time for as long
		// as several writes of a busy thread take
		nKeys = 4
		c.Params["nkeys"], c.Params["elem"], c.Params["twin"], c.Params["others"], c.Params["warm"] = 4, r.N(2), 0, 0, 0
		c.Params["init_mask"] = r.N(16)
		snap := sim.Op{Op: []string{"GetWithMap", "GetWithMap", "Keys", "Values", "Range", "All"}[r.N(6)], V: 1<<8 | 1}
		if snap.Op == "GetWithMap" {
			snap.Ks = []int{0, 1, 2, 3}[:r.Range(2, 4)]
			if r.Pct(70) {
				snap.D = []int{4096, 5000, 9000, 13000}[r.N(4)]
			}
		}
		var busy []sim.Op
		for i := 0; i < r.Range(3, 7); i++ {
			op := sim.Op{Op: []string{"Set", "Set", "SetNx", "SetX", "Delete", "MapMove"}[r.N(6)], K: r.N(4), V: 2<<8 | (i + 1)}
			switch op.Op {
			case "Delete":
				op.Ks = []int{r.N(4)}
			case "MapMove":
				a := r.N(4)
				op.Ks = []int{a, (a + 1 + r.N(3)) % 4}
			}
			busy = append(busy, op)
		}
		c.Programs = [][]sim.Op{{snap}, busy}
		c.Sched = enga.GenSched(r, 2, len(busy)+1, -1, false)
		c.Sched.SpinBurn = 0
		c.Sched.Stalls = []sim.Stall{{T: 0, AfterS: r.Range(3, 6), For: r.Range(6, 40)}}
		if r.Bool() {
			c.Sched.Stalls = append(c.Sched.Stalls, sim.Stall{T: 0, AfterS: r.Range(4, 9), For: r.Range(6, 40)})
		}
	}
	c.EnvSeed = r.U64() >> 12
	return c
}

func setKeys(c *sim.Case) {
	nKeys = c.P("nkeys")
	if nKeys < 4 {
		nKeys = 4
	}
	if nKeys > 80000 {
		nKeys = 80000
	}
}

func build(c *sim.Case) enga.Instance {
	setKeys(c)
	x := &inst{m: newKV(c.P("elem"), r2(c.P("init_mask"))), init: map[int]int{}, elem: c.P("elem")}
	if w := c.P("warm"); w > 0 {
		// a long earlier life: tens of thousands of other keys were stored and deleted again
		// before the concurrent part starts (internal counters and thresholds have history)
		// as many as bring a count of past operations to just below a power of two: the
		// operations of the run itself then cross it
		n := 1<<[]int{12, 14, 16, 16}[w%4] - 1 - w/4%3
		ks := make([]int, n)
		for i := range ks {
			ks[i] = 1000 + i
			x.m.Set(ks[i], 1)
		}
		if w%2 == 0 {
			x.m.Delete(ks...)
		} else {
			for _, k := range ks {
				x.m.Delete(k)
			}
		}
	}
	if c.P("others") == 1 && c.P("elem") != 4 {
		for i := 0; i < 96; i++ {
			x.others = append(x.others, newKV(c.P("elem"), 0))
		}
	}
	if c.P("twin") == 1 && c.P("elem") != 4 {
		x.tw = newKV(c.P("elem"), 0)
	}
	if c.P("early") == 1 {
		for t := range x.early {
			x.early[t] = x.m.AllSeq()
		}
	}
	for k := 0; k < nKeys; k++ {
		present := false
		if nKeys <= 32 {
			present = c.P("init_mask")&(1<<k) != 0
		} else {
			present = (k*37+11)%100 < c.P("init_pct")
		}
		if present {
			v := 0xF00 + k%20000 // (the model keeps two bytes per value)
			if c.P("elem") == 4 {
				v = 0
			}
			x.m.Set(k, v)
			x.init[k] = v
		}
	}
	return x
}

func r2(mask int) int {
	n := 0
	for ; mask != 0; mask &= mask - 1 {
		n++
	}
	return n
}

// model state: 2 bytes per key, 0xFFFF = absent
func encN(m map[int]int, nKeys int) string {
	b := make([]byte, 2*nKeys)
	for k := 0; k < nKeys; k++ {
		v, ok := m[k]
		if !ok {
			v = 0xFFFF
		}
		b[2*k], b[2*k+1] = byte(v>>8), byte(v)
	}
	return string(b)
}

func dec(s string) map[int]int {
	m := map[int]int{}
	for k := 0; k < len(s)/2; k++ {
		v := int(s[2*k])<<8 | int(s[2*k+1])
		if v != 0xFFFF {
			m[k] = v
		}
	}
	return m
}

type kvIn struct {
	op sim.Op
}

type kvOut struct {
	r sim.Rec
}

func sortedCopy(a []int) []int {
	b := append([]int{}, a...)
	sort.Ints(b)
	return b
}

func eqInts(a, b []int) bool {
	if len(a) != len(b) {
		return false
	}
	for i := range a {
		if a[i] != b[i] {
			return false
		}
	}
	return true
}

func step(state, input, output interface{}) (bool, interface{}) {
	s := state.(string)
	nk := len(s) / 2
	op := clampOpN(input.(kvIn).op, nk)
	r := output.(kvOut).r
	m := dec(s)
	switch op.Op {
	case "Get":
		v, ok := m[op.K]
		return ok == r.OK && (!ok || v == r.V), s
	case "GetWithLock":
		v, ok := m[op.K]
		return ok == r.OK && (!ok || v == r.V), s
	case "Has", "Contains":
		_, ok := m[op.K]
		return ok == r.OK, s
	case "Len":
		return len(m) == r.V, s
	case "Set":
		m[op.K] = op.V
		return true, encN(m, nk)
	case "SetNx":
		_, ok := m[op.K]
		if ok == r.OK {
			return false, s
		}
		if !ok {
			m[op.K] = op.V
		}
		return true, encN(m, nk)
	case "SetX":
		_, ok := m[op.K]
		if ok != r.OK {
			return false, s
		}
		if ok {
			m[op.K] = op.V
		}
		return true, encN(m, nk)
	case "Delete":
		for _, k := range op.Ks {
			delete(m, k)
		}
		return true, encN(m, nk)
	case "Clear":
		return true, encN(map[int]int{}, nk)
	case "Keys":
		var ks []int
		for k := range m {
			ks = append(ks, k)
		}
		sort.Ints(ks)
		return eqInts(ks, sortedCopy(r.Ks)), s
	case "Values":
		var vs []int
		for _, v := range m {
			vs = append(vs, v)
		}
		sort.Ints(vs)
		return eqInts(vs, sortedCopy(r.Vs)), s
	case "Range", "All", "Final":
		// every observed binding is a binding of this one state, keys distinct, and the
		// number observed is what the state allows
		seen := map[int]bool{}
		for i, k := range r.Ks {
			if seen[k] {
				return false, s
			}
			seen[k] = true
			if v, ok := m[k]; !ok || v != r.Vs[i] {
				return false, s
			}
		}
		want := len(m)
		if op.D != 0 && op.D < want {
			want = op.D
		}
		return len(r.Ks) == want, s
	case "GetWithMap":
		for i, k := range op.Ks {
			v, ok := m[k]
			if !ok {
				v = -1
			}
			if r.Vs[i] != v {
				return false, s
			}
		}
		return true, s
	case "MapMove":
		v, ok := m[op.Ks[0]]
		if ok != r.OK || (ok && v != r.V) {
			return false, s
		}
		if ok {
			delete(m, op.Ks[0])
			m[op.Ks[1]] = v
		}
		return true, encN(m, nk)
	case "MapSetLen":
		m[op.K] = op.V
		return len(m) == r.V, encN(m, nk)
	}
	return false, s
}

const site = "mapz.(*SafeKV)"

func check(run *enga.Run) *sim.Violation {
	c, recs, res := run.Case, run.Recs, run.Res
	x := run.Inst.(*inst)
	if c.P("warm") > 0 {
		run.Out.Probes["map_with_a_long_earlier_life"]++
	}
	if c.P("nkeys") >= 8192 {
		run.Out.Probes["map_with_thousands_of_live_entries"]++
	}
	if c.P("early") == 1 {
		for t, prog := range c.Programs {
			for i, op := range prog {
				if op.Op == "All" && op.S == "early" && i < len(recs[t]) && recs[t][i].Done {
					run.Out.Probes["all_sequence_obtained_on_the_empty_map_iterated_later"]++
				}
			}
		}
	}
	if x.tw != nil {
		run.Out.Probes["twin_instance_used_alternately"]++
		for _, e := range x.twErr {
			if e != "" {
				return &sim.Violation{Class: "model_mismatch:Get", Site: site + ".Get", Detail: e}
			}
		}
	}
	switch res.End {
	case core.EndBudget, core.EndStuckSpin:
		return &sim.Violation{Class: "liveness", Site: site, Detail: "run did not finish under the fair policy: " + core.EndNames[res.End]}
	case core.EndDeadlock:
		who := ""
		for _, t := range res.Unfinished {
			for i, op := range c.Programs[t] {
				if recs[t][i].Started && !recs[t][i].Done {
					who += fmt.Sprintf(" t%d:%s", t, op.Op)
				}
			}
		}
		return &sim.Violation{Class: "deadlock", Site: site, Detail: "threads blocked on the lock for good:" + who}
	}
	// cheap derived cross-checks (also covered by the model, reported with a sharper class)
	var ops []porcupine.Operation
	maxRet := int64(0)
	for t, prog := range c.Programs {
		for i, op := range prog {
			r := recs[t][i]
			if !r.Done {
				continue
			}
			if op.Op == "MapOthers" {
				run.Out.Probes["callback_under_lock_uses_other_maps"]++
				if !r.OK {
					return &sim.Violation{Class: "fresh_instance_disturbed", Site: "mapz.(*SafeKV).Map", Detail: "a Map callback stored values in other maps and read something else back"}
				}
				continue // touches other maps only
			}
			if op.Op == "Fresh" {
				run.Out.Probes["fresh_instance_created_during_run"]++
				if !r.OK {
					return &sim.Violation{Class: "fresh_instance_disturbed", Site: "mapz.NewSafeKV", Detail: fmt.Sprintf("a map created while other maps are in use: Len() before/after SetNx/after Delete = %d/%d/%d, Get = %#x, %d keys (expected 0/1/0, the stored value and one key)", r.Vs[0], r.Vs[1], r.Vs[2], r.Vs[3], r.Vs[4])}
				}
				continue // another map: not part of this map's history
			}
			if len(r.Ks) != len(r.Vs) && (op.Op == "Range" || op.Op == "All") {
				return &sim.Violation{Class: "model_mismatch:" + op.Op, Site: site + "." + op.Op, Detail: "callback saw unequal numbers of keys and values"}
			}
			ops = append(ops, porcupine.Operation{ClientId: t, Call: int64(r.Call), Return: int64(r.Ret), Input: kvIn{op}, Output: kvOut{r}})
			if int64(r.Ret) > maxRet {
				maxRet = int64(r.Ret)
			}
		}
	}
	// final state, read single-threaded through the structure itself
	var fin sim.Rec
	fin.Ks, fin.Vs = x.m.Final(nKeys)
	ops = append(ops, porcupine.Operation{ClientId: len(c.Programs), Call: maxRet + 1, Return: maxRet + 2, Input: kvIn{sim.Op{Op: "Final"}}, Output: kvOut{fin}})
	if len(ops) <= 60 {
		nk := nKeys
		model := porcupine.Model{Init: func() interface{} { return encN(x.init, nk) }, Step: step}
		switch enga.CheckLin(model, ops) {
		case porcupine.Ok:
			run.Out.PorcOK++
		case porcupine.Unknown:
			run.Out.PorcUnknown++
		case porcupine.Illegal:
			run.Out.PorcIllegal++
			return &sim.Violation{Class: "not_linearizable", Site: site, Detail: "no order of the operations, each taking effect atomically on one map, explains the observed results" + blame(c, recs, x.init)}
		}
	}
	return nil
}

// blame names the methods involved (site stays coarse so that shrinking may change it).
func blame(c *sim.Case, recs [][]sim.Rec, init map[int]int) string {
	set := map[string]bool{}
	for t, prog := range c.Programs {
		for i, op := range prog {
			if recs[t][i].Done {
				set[op.Op] = true
			}
		}
	}
	var names []string
	for k := range set {
		names = append(names, k)
	}
	sort.Strings(names)
	return fmt.Sprintf(" (methods in the history: %v)", names)
}

func main() {
	enga.Main(&enga.Spec{ID: "C12", Gen: gen, New: build, Check: check})
}
