// C20 — randz identifiers and random strings have the documented shape (Engine C).
//
// Simulated: the clock behind time.Since (time -> stime: a per-run clock trace decides what
// every read observes), the entropy behind crypto/rand.Int and its math/rand fallback
// (crypto/rand -> scrand, math/rand -> smrand), the rand.Source handed to NewStrGenerator.
// One clause has no environment in it: "ParseBase32 rejects every byte outside the alphabet";
// it is decided by plain exhaustive enumeration of a finite table (Extra), and reported as such.
package main

import (
	"fmt"
	"strconv"
	"unicode/utf8"

	"harness/engc"
	"harness/sim"

	"github.com/welllog/golib/randz"
	"github.com/welllog/golib/zzsim/core"
	"github.com/welllog/golib/zzsim/scrand"
	"github.com/welllog/golib/zzsim/shashz"
	"github.com/welllog/golib/zzsim/smrand"
	"github.com/welllog/golib/zzsim/stime"
)

const ms = int64(1000000)

var scenNames = []string{"id_generator", "str_generator", "id_numerals", "count_generator"}

func gen(r *sim.Rng, tier string) *sim.Case {
	c := &sim.Case{Params: map[string]int{}}
	p := c.Params
	p["scen"] = r.Pick(5, 3, 2, 2)
	switch p["scen"] {
	case 0:
		p["randbit"] = r.Range(-3, 40)
		if r.Pct(60) {
			p["randbit"] = r.Range(2, 22)
		}
		p["start_ms"] = r.N(1 << 20)
		p["start_sub"] = r.N(int(ms))
		// where on the time axis the run sits: 0 near start, 1 somewhere, 2 just below 2^41 ms, 3 before the start, 4 beyond 2^41 ms
		p["region"] = r.Pick(4, 4, 2, 1, 1)
		p["emode"] = r.Pick(6, 1, 1)
		p["read_jitter"] = r.Pick(4, 1) // the clock moves a little at every read
		p["default_id"] = r.Pick(5, 1)
		if r.Pct(15) {
			p["twin"] = 1 // a second generator is used alternately
		}
		p["echunk"] = []int{0, 0, 1, 2}[r.N(4)]
		if r.Pct(25) {
			p["efail"] = 1 + r.N(4)
			p["efail_on"] = r.N(2)
		}
		n := r.Range(2, 12)
		for i := 0; i < n; i++ {
			// clock advance before this Generate call, by kind
			c.Ops = append(c.Ops, sim.Op{Op: "Generate", K: r.Pick(4, 6, 6, 4, 6, 1), V: r.N(1 << 30)})
		}
	case 1:
		p["setlen"] = r.Range(1, 40)
		if r.Pct(5) {
			p["setlen"] = r.Range(41, 200)
		}
		if r.Pct(30) {
			p["setlen"] = []int{1, 2, 4, 8, 16, 32}[r.N(6)]
		}
		p["runes"] = r.N(4) // 0 ascii, 1 mixed widths, 2 all 3-byte, 3 all 4-byte
		if r.Pct(6) {
			p["badutf8"] = 1 + r.N(40) // raw invalid bytes inside the character-set string
		}
		p["n"] = r.N(201)
		if r.Pct(10) {
			p["n"] = r.N(1200)
		}
		if r.Pct(2) {
			p["n"] = r.Range(1000, 20000)
		}
		if r.Pct(20) {
			p["n"] = r.N(3)
		}
		p["default_gen"] = r.Pick(4, 1)
	case 2:
		n := r.Range(1, 8)
		for i := 0; i < n; i++ {
			c.Ops = append(c.Ops, sim.Op{Op: "Id", K: r.N(8), V: r.N(1 << 30), D: r.N(63)})
		}
	case 3:
		nr := r.Range(1, 4)
		if r.Pct(5) {
			nr = r.Range(5, 9)
		}
		for i := 0; i < nr; i++ {
			period := r.Range(1, 200)
			if r.Pct(15) {
				period = r.Range(1, 5000)
			}
			if r.Pct(2) {
				period = r.Range(10000, 60000)
			}
			if i > 0 && r.Pct(25) {
				period = c.Ops[i-1].K // equal periods
			}
			interval := r.Range(1, 50)
			if r.Pct(20) {
				interval = period + r.Range(1, 20) // interval > period
			}
			c.Ops = append(c.Ops, sim.Op{Op: "Rule", K: period, V: r.Range(1, 30), D: interval, Ks: []int{r.Range(1, 9)}})
		}
		p["T"] = r.Range(10, 450)
		if r.Pct(15) {
			p["T"] = r.Range(450, 6000)
		}
		if r.Pct(2) {
			p["T"] = r.Range(20000, 120000)
		}
		p["id"] = r.N(1 << 20)
	}
	c.EnvSeed = r.U64() >> 12
	return c
}

func viol(class, site, format string, a ...any) *sim.Violation {
	return &sim.Violation{Class: class, Site: "randz." + site, Detail: fmt.Sprintf(format, a...)}
}

func exec(c *sim.Case, out *sim.WorkerOut) (*sim.Violation, bool) {
	p := c.Params
	dg := engc.NewDigest()
	r := sim.NewRng(c.EnvSeed)
	core.EnvSeed(c.EnvSeed ^ 0x5eed) // entropy and math/rand draws of this case depend on the case alone
	scrand.Reset()
	smrand.Word = nil
	smrand.Words = 0
	stime.OnRead = nil
	stime.Reads = 0
	var v *sim.Violation
	nontrivial := false
	scen := p["scen"]
	if scen < 0 || scen > 3 {
		scen = 0
	}
	site := []string{"(*IdGenerator).Generate", "(*StrGenerator).Generate", "ID.Base32", "(*CountGenerator).Generate"}[scen]
	pv := engc.Call("randz."+site, func() {
		switch scen {
		case 0:
			v, nontrivial = idGen(c, r, out, dg)
		case 1:
			v, nontrivial = strGen(c, r, out, dg)
		case 2:
			v, nontrivial = numerals(c, r, out, dg)
		case 3:
			v, nontrivial = countGen(c, r, out, dg)
		}
	})
	if pv != nil {
		v = pv
	}
	out.Probes["scenario:"+scenNames[scen]]++
	c.LogHash = dg.Hex()
	return v, nontrivial
}

func idGen(c *sim.Case, r *sim.Rng, out *sim.WorkerOut, dg *engc.Digest) (*sim.Violation, bool) {
	p := c.Params
	scrand.Mode = p["emode"]
	scrand.MaxChunk = p["echunk"]
	if p["efail"] > 0 {
		scrand.FailAt = p["efail"]
		scrand.FailOn = p["efail_on"] == 1
	}
	startNs := int64(p["start_ms"])*ms + int64(p["start_sub"])
	start := stime.Base.Add(stime.Duration(startNs))
	rb := p["randbit"]
	g := randz.NewIdGenerator(start, rb)
	// the twin: a second generator with another start time and another randBit, used alternately
	// with the first.  Two generators share nothing (a package-level cache of the last timestamp
	// or of unused random bits would couple them).
	var g2 *randz.IdGenerator
	start2Ns := startNs - 3*86400*1000*ms - 123456
	rb2 := (p["randbit"]+5)%21 + 2
	if p["twin"] == 1 {
		gg := randz.NewIdGenerator(stime.Base.Add(stime.Duration(start2Ns)), rb2)
		g2 = &gg
	}
	useDefault := p["default_id"] == 1
	if useDefault {
		// the package-level generator: documented as 18 random bits above which the
		// milliseconds since the configured start time sit
		randz.SetIdGeneratorStartTime(start)
		rb = 18
	}
	// the clock at the first read
	var now int64
	switch p["region"] {
	case 0:
		now = startNs
	case 1:
		now = startNs + int64(r.N(1<<40))*1000
	case 2:
		now = startNs + ((int64(1)<<41)-int64(r.Range(1, 40)))*ms
	case 3:
		now = startNs - int64(r.N(1<<30))
	default:
		now = startNs + ((int64(1)<<41)+int64(r.N(1<<20)))*ms
		if now < 0 {
			now = 1<<62 + 12345
		}
	}
	var prevID int64
	var prevE int64 = -1
	prevValid := false
	fallback0 := smrand.Words
	for i, op := range c.Ops {
		switch op.K {
		case 0: // no advance
		case 1: // less than a millisecond
			now += int64(op.V) % ms
		case 2: // exactly one millisecond
			now += ms
		case 3: // large jump
			now += int64(op.V) * 1000
		case 4: // land next to a millisecond boundary of the elapsed time
			el := now - startNs
			next := (el/ms + 1) * ms
			now = startNs + next + []int64{-1, 0, 1}[op.V%3]
		case 5: // the clock steps backwards (NTP)
			now -= int64(op.V) % (50 * ms)
			out.Faults["clock_stepped_backwards"]++
		}
		stime.Clock = now
		if p["read_jitter"] == 1 {
			// every read of the clock moves it by up to 0.7 ms: a generator that reads the
			// clock more than once sees different values
			jr := sim.NewRng(uint64(op.V) + 17)
			stime.OnRead = func() { stime.Clock += int64(jr.N(700000)) }
		}
		reads0 := stime.Reads
		var id int64
		if useDefault {
			id = int64(randz.Id())
		} else {
			id = int64(g.Generate())
		}
		if stime.Reads == reads0 {
			out.Notes = appendOnce(out.Notes, "IdGenerator.Generate did not read the simulated clock")
		}
		dg.Add(id)
		if id < 0 {
			return viol("shape:IdGenerator.Generate", "(*IdGenerator).Generate", "call %d: negative id %d (randBit=%d, elapsed=%dns)", i, id, rb, now-startNs), true
		}
		stime.OnRead = nil
		el := now - startNs
		E := el / ms      // Duration.Milliseconds truncates toward zero
		now = stime.Clock // the reads may have moved the clock
		E2 := (now - startNs) / ms
		if E >= 0 && E2 < 1<<41 {
			if rb >= 2 && rb <= 22 {
				if got := id >> uint(rb); got < E || got > E2 {
					return viol("shape:IdGenerator.Generate", "(*IdGenerator).Generate", "call %d: id %d >> randBit(%d) = %d, elapsed milliseconds = %d..%d", i, id, rb, id>>uint(rb), E, E2), true
				}
			}
			if prevValid && E > prevE && id <= prevID {
				return viol("shape:IdGenerator.Generate", "(*IdGenerator).Generate", "call %d: ids taken >= 1 ms apart do not increase: %d then %d (elapsed %d ms then %d ms, randBit=%d)", i, prevID, id, prevE, E, rb), true
			}
			prevID, prevE, prevValid = id, E2, true
		} else {
			prevValid = false
			out.Probes["elapsed_outside_41_bits"]++
		}
		if g2 != nil {
			t0 := (stime.Clock - start2Ns) / ms
			id2 := int64(g2.Generate())
			t1 := (stime.Clock - start2Ns) / ms
			now = stime.Clock
			if id2 < 0 {
				return viol("shape:IdGenerator.Generate", "(*IdGenerator).Generate", "call %d, twin generator used alternately with the first: negative id %d", i, id2), true
			}
			if t0 >= 0 && t1 < 1<<41 {
				if got := id2 >> uint(rb2); got < t0 || got > t1 {
					return viol("shape:IdGenerator.Generate", "(*IdGenerator).Generate", "call %d, twin generator (randBit %d) used alternately with the first: id %d >> randBit = %d, elapsed milliseconds = %d..%d", i, rb2, id2, got, t0, t1), true
				}
			}
		}
	}
	if scrand.Errors > 0 {
		out.Faults["entropy_error"] += scrand.Errors
	}
	if smrand.Words > fallback0 {
		out.Faults["math_rand_fallback_used"]++
	}
	if scrand.MaxChunk > 0 {
		out.Faults["entropy_short_read"]++
	}
	if scrand.Mode != 0 {
		out.Faults["entropy_extreme_bytes"]++
	}
	out.Faults["clock_read"] += stime.Reads
	if p["region"] >= 2 {
		out.Faults["clock_extreme_region"]++
	}
	if useDefault {
		out.Probes["package_level_Id()"]++
	}
	if g2 != nil {
		out.Probes["twin_instance_used_alternately"]++
	}
	boundary := false
	for _, op := range c.Ops {
		if op.K == 4 {
			boundary = true
		}
	}
	if boundary {
		out.Faults["clock_next_to_ms_boundary"]++
	}
	// non-trivial: an adversarial decision of clock or entropy actually took place
	return nil, scrand.Errors > 0 || scrand.MaxChunk > 0 || scrand.Mode != 0 || p["region"] >= 2 || boundary
}

func appendOnce(l []string, s string) []string {
	for _, x := range l {
		if x == s {
			return l
		}
	}
	return append(l, s)
}

type seededSource struct{ r *sim.Rng }

func (s *seededSource) Int63() int64    { return int64(s.r.U64() >> 1) }
func (s *seededSource) Seed(seed int64) {}

var runePools = [][]rune{
	[]rune("abcdefghijklmnopqrstuvwxyzABCDEFGHIJKLMN"),
	[]rune("aé世𝄞bü界😀cñ語🙂dßあ🚀eøい𐍈fåう🎉gçえ🧪hîお🔥iôかλjûきπ"),
	[]rune("世界語あいうえおかきくけこさしすせそたちつてとなにぬねのはひふへほまみむめも"),
	[]rune("𝄞😀🙂🚀𐍈🎉🧪🔥🌍🌎🌏🎈🎁🎂🎃🎄🎅🎆🎇🎐🎑🎒🎓🎠🎡🎢🎣🎤🎥🎦🎧🎨🎩🎪🎫🎬🎭🎮🎯🎰"),
}

func init() {
	// extend every pool to 200 distinct runes of its width class
	ext := [][2]rune{{0x21, 0x7e}, {0xa1, 0x24f}, {0x4e00, 0x4eff}, {0x1f300, 0x1f3ff}}
	for i := range runePools {
		seen := map[rune]bool{}
		for _, ch := range runePools[i] {
			seen[ch] = true
		}
		lo, hi := ext[i][0], ext[i][1]
		if i == 1 { // mixed widths: draw from all classes
			for j := 0; len(runePools[i]) < 200; j++ {
				e := ext[j%4]
				ch := e[0] + rune(j/4)%(e[1]-e[0]+1)
				if !seen[ch] {
					seen[ch] = true
					runePools[i] = append(runePools[i], ch)
				}
			}
			continue
		}
		for ch := lo; ch <= hi && len(runePools[i]) < 200; ch++ {
			if !seen[ch] {
				seen[ch] = true
				runePools[i] = append(runePools[i], ch)
			}
		}
	}
}

func strGen(c *sim.Case, r *sim.Rng, out *sim.WorkerOut, dg *engc.Digest) (*sim.Violation, bool) {
	p := c.Params
	n := p["n"]
	if n < 0 {
		n = 0
	}
	if p["default_gen"] == 1 {
		s := randz.String(n)
		dg.Add(s)
		if utf8.RuneCountInString(s) != n {
			return viol("shape:String", "String", "String(%d) has %d runes", n, utf8.RuneCountInString(s)), true
		}
		for _, ch := range s {
			ok := false
			for _, a := range randz.CHAR_SET {
				if a == ch {
					ok = true
				}
			}
			if !ok {
				return viol("shape:String", "String", "String(%d) contains %q, not in the default character set", n, ch), true
			}
		}
		out.Faults["simulated_math_rand_source"]++
		return nil, n > 0
	}
	pool := runePools[p["runes"]&3]
	k := p["setlen"]
	if k < 1 {
		k = 1
	}
	if k > len(pool) {
		k = len(pool)
	}
	// a random subset of k distinct runes, in random order
	perm := make([]rune, len(pool))
	copy(perm, pool)
	for i := len(perm) - 1; i > 0; i-- {
		j := r.N(i + 1)
		perm[i], perm[j] = perm[j], perm[i]
	}
	set := perm[:k]
	cs := string(set)
	if p["badutf8"] > 0 {
		// bytes that are not valid UTF-8 on their own: as runes each is U+FFFD, and that is what
		// the configured character set contains; two of them side by side may form a real rune
		bad := []string{"\xff", "\xa9\xc3", "\xc3", "\xe4\xb8", "\x80\xe2\x82"}[(p["badutf8"]-1)%5]
		at := 0
		if k > 1 {
			at = len(string(set[:p["badutf8"]%k]))
		}
		cs = cs[:at] + bad + cs[at:]
		set = []rune(cs)
		out.Faults["character_set_with_invalid_utf8_bytes"]++
	}
	g := randz.NewStrGenerator(cs, &seededSource{r: sim.NewRng(r.U64())})
	s := g.Generate(n)
	dg.Add(s)
	if !utf8.ValidString(s) || utf8.RuneCountInString(s) != n {
		return viol("shape:StrGenerator.Generate", "(*StrGenerator).Generate", "Generate(%d) over %d runes returned %d runes (valid UTF-8: %v)", n, k, utf8.RuneCountInString(s), utf8.ValidString(s)), true
	}
	member := map[rune]bool{}
	for _, ch := range set {
		member[ch] = true
	}
	for _, ch := range s {
		if !member[ch] {
			return viol("shape:StrGenerator.Generate", "(*StrGenerator).Generate", "Generate(%d) contains %q which is not in the character set %q", n, ch, string(set)), true
		}
	}
	out.Faults["caller_rand_source_seeded"]++
	if p["runes"]&3 != 0 {
		out.Probes["multibyte_charset"]++
	}
	if k&(k-1) == 0 {
		out.Probes["charset_size_power_of_two"]++
	}
	// non-trivial: the source had to be consulted more than once, or a multi-byte / power-of-two set
	return nil, n > 12 || p["runes"]&3 != 0 || k&(k-1) == 0
}

var boundaryIDs = func() []int64 {
	b := []int64{0, 1, 31, 32, 33, 1023, 1024, 1025, 1<<63 - 1, 1<<62 - 1, 1 << 62}
	for k := int64(1); k < 1<<62/32; k *= 32 {
		b = append(b, k*32-1, k*32, k*32+1)
	}
	return b
}()

func numerals(c *sim.Case, r *sim.Rng, out *sim.WorkerOut, dg *engc.Digest) (*sim.Violation, bool) {
	for i, op := range c.Ops {
		var id int64
		switch op.K % 4 {
		case 0:
			id = boundaryIDs[op.V%len(boundaryIDs)]
		case 1:
			id = int64(r.U64() >> 1)
		case 2:
			id = int64(r.U64()>>1) >> uint(op.D%63)
		default:
			id = int64(op.V)
		}
		x := randz.ID(id)
		b32 := x.Base32()
		back, err := randz.ParseBase32([]byte(b32))
		dg.Add(b32)
		if err != nil || int64(back) != id {
			return viol("shape:ParseBase32", "ParseBase32", "op %d: ParseBase32(ID(%d).Base32()=%q) = %d, %v", i, id, b32, back, err), true
		}
		if x.String() != strconv.FormatInt(id, 10) || x.Base2() != strconv.FormatInt(id, 2) || x.Base36() != strconv.FormatInt(id, 36) || x.Int64() != id {
			return viol("shape:ID.String", "ID.String", "op %d: numerals of %d differ from strconv.FormatInt", i, id), true
		}
		// a well-formed base-32 numeral decodes to the value its digits denote
		const alphabet = "0123456789abcdefghjkmnprstuvwxyz"
		var want int64
		for j := 0; j < len(b32); j++ {
			d := -1
			for k := 0; k < 32; k++ {
				if alphabet[k] == b32[j] {
					d = k
				}
			}
			if d < 0 {
				return viol("shape:ID.Base32", "ID.Base32", "op %d: Base32 of %d contains %q, outside the 32-character alphabet", i, id, b32[j]), true
			}
			want = want*32 + int64(d)
		}
		if want != id {
			return viol("shape:ID.Base32", "ID.Base32", "op %d: Base32 of %d is %q which denotes %d", i, id, b32, want), true
		}
	}
	nb := 0
	for _, op := range c.Ops {
		if op.K%4 == 0 {
			nb++
		}
	}
	out.Probes["boundary_ids"] += nb
	return nil, nb > 0
}

func countGen(c *sim.Case, r *sim.Rng, out *sim.WorkerOut, dg *engc.Digest) (*sim.Violation, bool) {
	var g randz.CountGenerator
	periods := map[int]int{}
	for _, op := range c.Ops {
		if op.K < 1 || op.V < 1 || op.D < 1 || len(op.Ks) == 0 || op.Ks[0] < 1 {
			continue // shrunk to a non-positive parameter: outside the statement
		}
		g.AddRule(op.K, op.V, op.D, op.Ks[0])
		periods[op.K]++
		if op.D > op.K {
			out.Probes["interval_longer_than_period"]++
		}
	}
	for _, n := range periods {
		if n > 1 {
			out.Probes["equal_periods"]++
		}
	}
	// several identifiers per case: each gets its own hash value from the simulator
	shashz.Reset()
	for n := 0; n < 3; n++ {
		id := fmt.Sprintf("id-%d-%d", c.P("id"), n)
		prev := 0
		for d := 0; d <= c.P("T"); d++ {
			got := g.Generate(id, d)
			lo, hi := g.Min(d), g.Max(d)
			if got < prev {
				return viol("shape:CountGenerator.Generate", "(*CountGenerator).Generate", "Generate(%q,%d) = %d < Generate(%q,%d) = %d", id, d, got, id, d-1, prev), true
			}
			if got < lo || got > hi {
				return viol("shape:CountGenerator.Generate", "(*CountGenerator).Generate", "Generate(%q,%d) = %d outside [Min,Max] = [%d,%d]", id, d, got, lo, hi), true
			}
			prev = got
		}
		dg.Add(prev)
	}
	out.Faults["elapsed_time_sweep"]++
	if shashz.Extremes > 0 {
		out.Faults["identifier_hash_at_an_extreme_of_its_range"] += shashz.Extremes
	}
	adversarial := shashz.Extremes > 0
	for k, n := range periods {
		if n > 1 {
			adversarial = true
		}
		_ = k
	}
	for _, op := range c.Ops {
		if op.D > op.K {
			adversarial = true
		}
	}
	return nil, adversarial
}

// extra: the one clause with no environment in it, decided by exhaustive enumeration of a
// finite table: every byte value outside the alphabet, at the first, a middle and the last
// position of otherwise valid strings of length 1..13, must be rejected.
func extra(out *sim.WorkerOut) []*sim.Case {
	const alphabet = "0123456789abcdefghjkmnprstuvwxyz"
	in := map[byte]bool{}
	for i := 0; i < len(alphabet); i++ {
		in[alphabet[i]] = true
	}
	var bad []*sim.Case
	cases := 0
	reported := map[string]bool{}
	for l := 1; l <= 26; l++ {
		for _, pos := range []int{0, l / 2, l - 1} {
			for b := 0; b < 256; b++ {
				s := make([]byte, l)
				for i := range s {
					s[i] = alphabet[(i*7+l)%32]
				}
				s[pos] = byte(b)
				cases++
				id, err := randz.ParseBase32(s)
				if in[byte(b)] {
					if err != nil {
						key := "valid"
						if !reported[key] {
							reported[key] = true
							bad = append(bad, &sim.Case{Params: map[string]int{"scen": 9, "len": l, "pos": pos, "byte": b},
								Violation: viol("shape:ParseBase32", "ParseBase32", "ParseBase32(%q) rejected a string made of alphabet characters: %v", s, err)})
						}
					}
					continue
				}
				if err != randz.ErrInvalidBase32 {
					class := "invalid_byte_accepted"
					if !reported[class] {
						reported[class] = true
						bad = append(bad, &sim.Case{Params: map[string]int{"scen": 9, "len": l, "pos": pos, "byte": b},
							Violation: viol("shape:ParseBase32", "ParseBase32", "ParseBase32(%q) = %d, %v: byte %#02x is outside the alphabet and must give ErrInvalidBase32", s, id, err, b)})
					}
				}
			}
		}
	}
	out.Probes["invalid_byte_table_cases(exhaustive)"] += cases
	return bad
}

// replay of an "extra" case (scen 9)
func execAny(c *sim.Case, out *sim.WorkerOut) (*sim.Violation, bool) {
	if c.P("scen") == 9 {
		const alphabet = "0123456789abcdefghjkmnprstuvwxyz"
		l, pos, b := c.P("len"), c.P("pos"), c.P("byte")
		if l < 1 {
			l = 1
		}
		if pos >= l {
			pos = l - 1
		}
		s := make([]byte, l)
		for i := range s {
			s[i] = alphabet[(i*7+l)%32]
		}
		s[pos] = byte(b)
		inAlpha := false
		for i := 0; i < 32; i++ {
			if alphabet[i] == byte(b) {
				inAlpha = true
			}
		}
		id, err := randz.ParseBase32(s)
		c.LogHash = "table"
		if inAlpha && err != nil {
			return viol("shape:ParseBase32", "ParseBase32", "ParseBase32(%q) rejected a string made of alphabet characters: %v", s, err), true
		}
		if !inAlpha && err != randz.ErrInvalidBase32 {
			return viol("shape:ParseBase32", "ParseBase32", "ParseBase32(%q) = %d, %v: byte %#02x is outside the alphabet and must give ErrInvalidBase32", s, id, err, b), true
		}
		return nil, true
	}
	return exec(c, out)
}

func main() {
	engc.Main(&engc.Spec{ID: "C20", Gen: gen, Exec: execAny, Extra: extra})
}
