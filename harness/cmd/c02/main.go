// C02 — SkipList and SkipListWithCmp behave as an ordered map (Engine C).
//
// Simulated: the list's private PRNG (math/rand -> smrand: every word a list draws for a tower
// height comes from the run's seed, under a per-run distribution) and the clock that seeds it
// (time -> stime).  Oracle: a sorted map stepped alongside, full cross-check after every
// mutation.
package main

import (
	"fmt"
	"iter"
	"math"
	"math/bits"
	"reflect"
	"sort"
	"strings"

	"harness/engc"
	"harness/sim"

	"github.com/welllog/golib/listz"
	"github.com/welllog/golib/zzsim/smrand"
	"github.com/welllog/golib/zzsim/stime"
)

// domain is the number of distinct keys of a run (per-run parameter, 16..256).
var domain = 16

// olist is the API both list types share.
type olist[K any] interface {
	Set(K, int)
	SetNx(K, int) bool
	SetX(K, int) bool
	Get(K) (int, bool)
	Remove(K) (int, bool)
	Len() int
	Clear()
	Range(func(K, int) bool)
	RangeWithStart(K, func(K, int) bool)
	RangeWithRange(K, K, func(K, int) bool)
	Keys() []K
	Values() []int
	All() iter.Seq2[K, int]
}

type adapter[K any] struct {
	l       olist[K]
	name    string
	getNode func(K) (k K, v int, set func(int), ok bool)
	walk    func() ([]K, []int)
	mk      func(int) K
	unmk    func(K) int
	ord     func(int) int
	raw     any
	clone   func() *adapter[K] // a second list of the same kind (the twin, see execTyped)
}

type pair struct{ A, B int }

// lenLexKey(i): the i-th string in (length, lexicographic) order over the alphabet a..z.
func lenLexKey(i int) string {
	switch {
	case i < 26:
		return string(rune('a' + i))
	case i < 26+676:
		i -= 26
		return string([]byte{byte('a' + i/26), byte('a' + i%26)})
	}
	i -= 26 + 676
	return string([]byte{byte('a' + i/676), byte('a' + i/26%26), byte('a' + i%26)})
}

func lenLexIdx(k string) int {
	switch len(k) {
	case 1:
		return int(k[0] - 'a')
	case 2:
		return 26 + int(k[0]-'a')*26 + int(k[1]-'a')
	}
	return 26 + 676 + int(k[0]-'a')*676 + int(k[1]-'a')*26 + int(k[2]-'a')
}

func ordinary[K interface {
	~int | ~string | ~uint16 | ~float64
}](start int, mk func(int) K, unmk func(K) int) *adapter[K] {
	var l *listz.SkipList[K, int]
	switch start {
	case 0:
		l = listz.NewSkipList[K, int]()
	case 1:
		var s listz.SkipList[K, int]
		s.Init()
		l = &s
	default:
		var s listz.SkipList[K, int]
		l = &s
	}
	return &adapter[K]{l: l, name: "listz.(*SkipList)", raw: l, mk: mk, unmk: unmk, ord: func(i int) int { return i },
		clone: func() *adapter[K] { return ordinary(0, mk, unmk) },
		getNode: func(k K) (K, int, func(int), bool) {
			n := l.GetNode(k)
			if n == nil {
				var z K
				return z, 0, nil, false
			}
			return n.Key(), n.Value(), n.SetValue, true
		},
		walk: func() (ks []K, vs []int) {
			for n := l.Head(); n != nil; n = n.Next() {
				ks = append(ks, n.Key())
				vs = append(vs, n.Value())
				if len(ks) > 4*domain {
					break
				}
			}
			return
		}}
}

func withCmp[K any](start int, cmp func(a, b K) int, mk func(int) K, unmk func(K) int, ord func(int) int) *adapter[K] {
	var l *listz.SkipListWithCmp[K, int]
	if start == 0 {
		l = listz.NewSkipListWithCmp[K, int](cmp)
	} else {
		var s listz.SkipListWithCmp[K, int]
		s.Init(cmp)
		l = &s
	}
	return &adapter[K]{l: l, name: "listz.(*SkipListWithCmp)", raw: l, mk: mk, unmk: unmk, ord: ord,
		clone: func() *adapter[K] { return withCmp(0, cmp, mk, unmk, ord) },
		getNode: func(k K) (K, int, func(int), bool) {
			n := l.GetNode(k)
			if n == nil {
				var z K
				return z, 0, nil, false
			}
			return n.Key(), n.Value(), n.SetValue, true
		},
		walk: func() (ks []K, vs []int) {
			for n := l.Head(); n != nil; n = n.Next() {
				ks = append(ks, n.Key())
				vs = append(vs, n.Value())
				if len(ks) > 4*domain {
					break
				}
			}
			return
		}}
}

var opNames = []string{"Set", "SetNx", "SetX", "Remove", "Get", "GetNode", "Len", "Head", "Clear", "Range", "RangeWithStart", "RangeWithRange", "Keys", "Values", "All"}

// (further operation, placed by scenarios only: "Age" repeats a cheap mutation D times - Clear,
// or Set and Remove of one key - the way a long-lived instance accumulates them)

func gen(r *sim.Rng, tier string) *sim.Case {
	c := &sim.Case{Params: map[string]int{}}
	kind := r.N(11)
	c.Params["kind"] = kind
	if r.Pct(20) {
		c.Params["twin"] = 1 // a second list of the same type is used alternately
	}
	if r.Pct(15) {
		c.Params["early_seq"] = 1 // All() is called before anything else; the sequence is ranged at the end
	}
	start := r.Pick(4, 2, 3)
	if kind >= 3 && start == 2 {
		start = 1
	}
	c.Params["start"] = start
	c.Params["dist"] = r.Pick(4, 2, 2, 2, 2, 2, 2)
	dom := []int{16, 16, 16, 64, 200, 256}[r.N(6)]
	if r.Pct(2) {
		dom = 2000 // rare: a long list
	}
	c.Params["domain"] = dom
	maxOps := 60
	if dom > 16 {
		maxOps = 40 + dom // enough inserts to build long lists
	}
	if dom > 256 {
		maxOps = 900
	}
	if tier == "thorough" {
		maxOps = 150
	}
	n := r.Range(3, maxOps)
	if r.Pct(40) {
		n = r.Range(2, 8) // many short runs: zero-value and empty-list corners
	}
	// swarm: weights and the sub-domain of keys used for writes (gaps for bound queries)
	w := make([]int, len(opNames))
	for i := range w {
		w[i] = r.Range(0, 4)
	}
	w[0] += 3
	w[3] += 2
	w[8] = r.Pick(6, 3, 1) // Clear: rare
	if w[8] == 2 {
		w[8] = 3
	} else if w[8] == 0 {
		w[8] = 0
	}
	var wk []int
	keep := r.Range(30, 100)
	for i := 0; i < dom; i++ {
		if r.Pct(keep) {
			wk = append(wk, i)
		}
	}
	if len(wk) == 0 {
		wk = append(wk, r.N(dom))
	}
	// queries and bounds like to sit at the extremes
	edge := func() int {
		switch r.N(6) {
		case 0:
			return 0
		case 1:
			return dom - 1
		case 2:
			return wk[len(wk)-1]
		case 3:
			return wk[0]
		}
		return r.N(dom)
	}
	for i := 0; i < n; i++ {
		k := r.Pick(w...)
		op := sim.Op{Op: opNames[k], V: i + 1}
		switch op.Op {
		case "Set", "SetNx", "SetX", "Remove":
			op.K = wk[r.N(len(wk))]
			if r.Pct(10) {
				op.K = edge()
			}
		case "Get", "GetNode":
			op.K = edge()
		case "Range", "All":
			op.D = r.Pick(3, 1, 1, 1) // stop after D callbacks (0 = never)
			if r.Pct(15) {
				op.D = r.N(dom + 1)
			}
			if op.D != 0 && r.Pct(12) {
				op.S = "panic" // the D-th callback panics instead of returning false
			}
		case "RangeWithStart":
			op.K = edge()
			op.D = r.Pick(3, 1, 1, 1)
			if r.Pct(15) {
				op.D = r.N(dom + 1)
			}
		case "RangeWithRange":
			op.K = edge()
			op.Ks = []int{edge()}
			op.D = r.Pick(3, 1, 1, 1)
		}
		c.Ops = append(c.Ops, op)
	}
	if r.N(1000) < 12 {
		// an instance with a long life behind it: a key is looked up and removed, then hundreds
		// or tens of thousands of cheap mutations follow (counts around 2^8 and 2^16: whatever an
		// implementation counts in a narrow field comes round), then the key is looked up again
		k := wk[r.N(len(wk))]
		k2 := wk[r.N(len(wk))]
		n := []int{255, 256, 65535, 65536}[r.N(4)] - r.N(3)
		how := []string{"clear", "setremove"}[r.N(2)]
		life := []sim.Op{
			{Op: "Set", K: k, V: 7001},
			{Op: []string{"Get", "GetNode"}[r.N(2)], K: k},
			{Op: "Remove", K: k},
			{Op: "Age", K: k2, D: n, S: how},
			{Op: "Get", K: k},
			{Op: "GetNode", K: k},
			{Op: "Len"},
			{Op: "Keys"},
		}
		at := r.N(len(c.Ops) + 1)
		c.Ops = append(c.Ops[:at:at], append(life, c.Ops[at:]...)...)
		c.Params["aged"] = 1
	}
	c.EnvSeed = r.U64() >> 12
	return c
}

// towerWords returns the word source for a distribution.  It does not invert the list's
// level function: it emits 64-bit words whose halves have bit lengths drawn from the chosen
// distribution, so whatever mapping from word to height the list uses sees diverse heights.
func towerWords(dist int, seed uint64) func() uint64 {
	r := sim.NewRng(seed)
	n := 0
	half := func(bl int) uint64 {
		if bl <= 0 {
			return 0
		}
		if bl > 32 {
			bl = 32
		}
		v := uint64(1) << (bl - 1)
		if bl > 1 {
			v |= r.U64() & (v - 1)
		}
		return v
	}
	return func() uint64 {
		n++
		var bl int
		switch dist {
		case 0: // as in production: uniform word
			return r.U64()
		case 1: // all short words (tall towers for "height ~ leading zeros")
			bl = r.N(4)
		case 2: // all long words (flat list)
			bl = 32
		case 3: // alternating
			if n%2 == 0 {
				bl = r.N(3)
			} else {
				bl = 32 - r.N(2)
			}
		case 4: // uniform bit length
			bl = r.N(33)
		case 6: // ramp the other way: each word one bit longer than the previous one
			bl = n % 33
		default: // ramp: each word one bit shorter than the previous one, then repeat
			bl = 32 - (n % 33)
		}
		return half(bl)<<32 | half(bl)
	}
}

type model struct {
	m   map[int]int
	ord func(int) int
}

func (m *model) keys() []int {
	ks := make([]int, 0, len(m.m))
	for k := range m.m {
		ks = append(ks, k)
	}
	sort.Slice(ks, func(a, b int) bool { return m.ord(ks[a]) < m.ord(ks[b]) })
	return ks
}

func levelOf(raw any) int {
	v := reflect.ValueOf(raw)
	if v.Kind() == reflect.Ptr {
		v = v.Elem()
	}
	f := v.FieldByName("level")
	if f.IsValid() && f.CanInt() {
		return int(f.Int())
	}
	return -1
}

func execTyped[K any](c *sim.Case, ad *adapter[K], out *sim.WorkerOut, dg *engc.Digest) (*sim.Violation, bool) {
	md := &model{m: map[int]int{}, ord: ad.ord}
	var twin *adapter[K]
	tmd := &model{m: map[int]int{}, ord: ad.ord}
	if c.P("twin") == 1 {
		twin = ad.clone()
	}
	var earlySeq iter.Seq2[K, int]
	if c.P("early_seq") == 1 {
		if pv := engc.Call(ad.name+".All", func() { earlySeq = ad.l.All() }); pv != nil {
			return pv, true
		}
	}
	site := func(op string) string { return ad.name + "." + op }
	mism := func(op string, format string, a ...any) *sim.Violation {
		return &sim.Violation{Class: "model_mismatch:" + op, Site: site(op), Detail: fmt.Sprintf(format, a...)}
	}
	maxLevel, grew, shrank := 0, 0, 0
	lvl := levelOf(ad.raw)
	zeroTouched := map[string]bool{}
	isZero := c.P("start") == 2
	for idx, op := range c.Ops {
		var v *sim.Violation
		mutating := false
		if op.K < 0 || op.K >= domain {
			op.K = ((op.K % domain) + domain) % domain
		}
		if len(op.Ks) > 0 && (op.Ks[0] < 0 || op.Ks[0] >= domain) {
			op.Ks = []int{((op.Ks[0] % domain) + domain) % domain}
		}
		if isZero && len(md.m) == 0 {
			zeroTouched[op.Op] = true
		}
		pv := engc.Call(site(op.Op), func() {
			switch op.Op {
			case "Set":
				ad.l.Set(ad.mk(op.K), op.V)
				md.m[op.K] = op.V
				mutating = true
			case "SetNx":
				got := ad.l.SetNx(ad.mk(op.K), op.V)
				_, present := md.m[op.K]
				if got != !present {
					v = mism(op.Op, "op %d SetNx(%d) = %v, key present = %v", idx, op.K, got, present)
					return
				}
				if !present {
					md.m[op.K] = op.V
				}
				mutating = true
			case "SetX":
				got := ad.l.SetX(ad.mk(op.K), op.V)
				_, present := md.m[op.K]
				if got != present {
					v = mism(op.Op, "op %d SetX(%d) = %v, key present = %v", idx, op.K, got, present)
					return
				}
				if present {
					md.m[op.K] = op.V
				}
				mutating = true
			case "Remove":
				gv, got := ad.l.Remove(ad.mk(op.K))
				mv, present := md.m[op.K]
				if got != present || (present && gv != mv) {
					v = mism(op.Op, "op %d Remove(%d) = (%d,%v), model (%d,%v)", idx, op.K, gv, got, mv, present)
					return
				}
				delete(md.m, op.K)
				mutating = true
			case "Get":
				gv, got := ad.l.Get(ad.mk(op.K))
				mv, present := md.m[op.K]
				dg.Add("get", gv, got)
				if got != present || (present && gv != mv) {
					v = mism(op.Op, "op %d Get(%d) = (%d,%v), model (%d,%v)", idx, op.K, gv, got, mv, present)
				}
			case "GetNode":
				k, gv, set, got := ad.getNode(ad.mk(op.K))
				mv, present := md.m[op.K]
				if got != present || (present && (gv != mv || ad.unmk(k) != op.K)) {
					v = mism(op.Op, "op %d GetNode(%d) found=%v val=%d, model (%d,%v)", idx, op.K, got, gv, mv, present)
					return
				}
				if got {
					set(op.V)
					md.m[op.K] = op.V
					mutating = true
				}
			case "Len":
				if n := ad.l.Len(); n != len(md.m) {
					v = mism(op.Op, "op %d Len() = %d, model %d", idx, n, len(md.m))
				}
			case "Head":
				ks, _ := ad.walk()
				want := md.keys()
				if len(ks) != len(want) {
					v = mism(op.Op, "op %d Head/Next walk saw %d nodes, model %d", idx, len(ks), len(want))
				}
			case "Clear":
				ad.l.Clear()
				md.m = map[int]int{}
				mutating = true
			case "Age":
				for i := 0; i < op.D; i++ {
					if op.S == "clear" {
						ad.l.Clear()
					} else {
						ad.l.Set(ad.mk(op.K), i)
						ad.l.Remove(ad.mk(op.K))
					}
				}
				if op.S == "clear" {
					md.m = map[int]int{}
				} else {
					delete(md.m, op.K)
				}
				mutating = true
			case "Range", "All", "RangeWithStart", "RangeWithRange", "Keys", "Values":
				v = enumCheck(ad, md, op, idx)
			}
		})
		if pv != nil {
			return pv, true
		}
		if v != nil {
			return v, true
		}
		if nl := levelOf(ad.raw); nl >= 0 {
			if nl > lvl && lvl >= 1 {
				grew++
			}
			if nl < lvl && op.Op != "Clear" {
				shrank++
			}
			lvl = nl
			if nl > maxLevel {
				maxLevel = nl
			}
		}
		if mutating && (domain <= 256 || idx%16 == 0 || idx == len(c.Ops)-1) {
			// full cross-check (long lists: every 16th mutation and at the end)
			for _, q := range []sim.Op{{Op: "Len"}, {Op: "Keys"}, {Op: "Values"}, {Op: "Range"}, {Op: "All"}, {Op: "Head"}} {
				var v2 *sim.Violation
				pv := engc.Call(site(q.Op), func() {
					switch q.Op {
					case "Len":
						if n := ad.l.Len(); n != len(md.m) {
							v2 = mism("Len", "after op %d (%s %d): Len() = %d, model %d", idx, op.Op, op.K, n, len(md.m))
						}
					case "Head":
						ks, vs := ad.walk()
						v2 = cmpEnum(ad, md, "Head", idx, ks, vs, md.keys(), true)
					default:
						v2 = enumCheck(ad, md, q, idx)
					}
				})
				if pv != nil {
					pv.Detail += fmt.Sprintf(" [cross-check after op %d %s]", idx, op.Op)
					return pv, true
				}
				if v2 != nil {
					v2.Detail += fmt.Sprintf(" [cross-check after op %d %s(%d)]", idx, op.Op, op.K)
					return v2, true
				}
			}
		}
		// the twin: a second list of the same type, used alternately with the first one.  Two
		// instances share nothing, so neither may notice the other (package-level pools,
		// caches or scratch buffers would couple them).
		if twin != nil {
			kb := (op.K*5 + idx) % domain
			var tv *sim.Violation
			pv := engc.Call(ad.name+".Set", func() {
				if idx%5 == 4 {
					_, got := twin.l.Remove(twin.mk(kb))
					if _, present := tmd.m[kb]; got != present {
						tv = mism("Remove", "twin list, op %d: Remove(%d) = %v, key present = %v", idx, kb, got, present)
					}
					delete(tmd.m, kb)
				} else {
					twin.l.Set(twin.mk(kb), idx)
					tmd.m[kb] = idx
				}
				if tv == nil && (idx%8 == 7 || idx == len(c.Ops)-1) {
					if n := twin.l.Len(); n != len(tmd.m) {
						tv = mism("Len", "twin list, after op %d: Len() = %d, model %d", idx, n, len(tmd.m))
					} else {
						tv = enumCheck(twin, tmd, sim.Op{Op: []string{"All", "Keys", "Range", "Values"}[idx/8%4]}, idx)
					}
				}
			})
			if pv != nil {
				pv.Detail += " [twin list]"
				return pv, true
			}
			if tv != nil {
				tv.Detail += " [twin list used alternately with the first]"
				return tv, true
			}
		}
		dg.Add(op.Op, len(md.m), lvl)
	}
	// the sequence value obtained before the first operation (possibly from a zero-value list)
	// enumerates what the list holds when it is finally ranged over
	if earlySeq != nil {
		var ev *sim.Violation
		pv := engc.Call(ad.name+".All", func() {
			var ks []K
			var vs []int
			for k, v := range earlySeq {
				ks = append(ks, k)
				vs = append(vs, v)
				if len(ks) > 4*domain {
					break
				}
			}
			ev = cmpEnum(ad, md, "All", len(c.Ops), ks, vs, md.keys(), true)
		})
		if pv != nil {
			pv.Detail += " [sequence obtained from All() before the first operation, ranged at the end]"
			return pv, true
		}
		if ev != nil {
			ev.Detail += " [sequence obtained from All() before the first operation, ranged at the end]"
			return ev, true
		}
		out.Probes["sequence_obtained_early_ranged_late"]++
	}
	if twin != nil {
		out.Probes["twin_instance_used_alternately"]++
	}
	if grew > 0 {
		out.Probes["top_level_grew"] += grew
	}
	if shrank > 0 {
		out.Probes["top_level_shrank"] += shrank
	}
	if maxLevel >= 3 {
		out.Probes["tower_with_3+_levels"]++
	}
	if maxLevel >= 8 {
		out.Probes["tower_with_8+_levels"]++
	}
	for k := range zeroTouched {
		out.Probes["zero_value_touched_by:"+k]++
	}
	nontrivial := smrand.Words > 0 && (c.P("dist") != 0 || maxLevel >= 3) || isZero
	return nil, nontrivial
}

type cbPanic struct{}

// enumCheck runs one enumeration method and compares it with the model.
func enumCheck[K any](ad *adapter[K], md *model, op sim.Op, idx int) *sim.Violation {
	var ks []K
	var vs []int
	calls := 0
	cb := func(k K, v int) bool {
		ks = append(ks, k)
		vs = append(vs, v)
		calls++
		if calls > 4*domain {
			return false
		}
		if op.S == "panic" && op.D != 0 && calls >= op.D {
			panic(cbPanic{}) // the callback fails; the caller of the enumeration recovers
		}
		return op.D == 0 || calls < op.D
	}
	// guard runs an enumeration whose callback may panic (op.S == "panic") the way a caller
	// that recovers would: afterwards the list must be as usable as after an early stop
	guard := func(f func()) {
		defer func() {
			if r := recover(); r != nil {
				if _, mine := r.(cbPanic); !mine {
					panic(r)
				}
			}
		}()
		f()
	}
	want := md.keys()
	hasVals := true
	switch op.Op {
	case "Range":
		guard(func() { ad.l.Range(cb) })
	case "All":
		// the sequence value is obtained once and ranged twice: an iter.Seq2 is a value the
		// caller may keep, and every range over it is "All"
		seq := ad.l.All()
		guard(func() {
			for k, v := range seq {
				if !cb(k, v) {
					break
				}
			}
		})
		var ks2 []K
		var vs2 []int
		for k, v := range seq {
			ks2 = append(ks2, k)
			vs2 = append(vs2, v)
			if len(ks2) > 4*domain {
				break
			}
		}
		if v := cmpEnum(ad, md, "All", idx, ks2, vs2, want, true); v != nil {
			v.Detail += " [second range over the same sequence value]"
			return v
		}
	case "RangeWithStart":
		guard(func() { ad.l.RangeWithStart(ad.mk(op.K), cb) })
		w2 := want[:0:0]
		for _, k := range want {
			if md.ord(k) >= md.ord(op.K) {
				w2 = append(w2, k)
			}
		}
		want = w2
	case "RangeWithRange":
		guard(func() { ad.l.RangeWithRange(ad.mk(op.K), ad.mk(op.Ks[0]), cb) })
		w2 := want[:0:0]
		for _, k := range want {
			if md.ord(k) >= md.ord(op.K) && md.ord(k) < md.ord(op.Ks[0]) {
				w2 = append(w2, k)
			}
		}
		want = w2
	case "Keys":
		ks = ad.l.Keys()
		hasVals = false
	case "Values":
		vs = ad.l.Values()
		if len(vs) != len(want) {
			return &sim.Violation{Class: "enumeration_incomplete:Values", Site: ad.name + ".Values", Detail: fmt.Sprintf("op %d Values() has %d entries, model %d", idx, len(vs), len(want))}
		}
		for i, k := range want {
			if vs[i] != md.m[k] {
				return &sim.Violation{Class: "model_mismatch:Values", Site: ad.name + ".Values", Detail: fmt.Sprintf("op %d Values()[%d] = %d, model %d", idx, i, vs[i], md.m[k])}
			}
		}
		return nil
	}
	if op.D != 0 && op.D < len(want) && op.Op != "Keys" {
		want = want[:op.D]
	}
	return cmpEnum(ad, md, op.Op, idx, ks, vs, want, hasVals)
}

func cmpEnum[K any](ad *adapter[K], md *model, name string, idx int, ks []K, vs []int, want []int, hasVals bool) *sim.Violation {
	got := make([]int, len(ks))
	for i, k := range ks {
		got[i] = ad.unmk(k)
	}
	if len(got) != len(want) {
		return &sim.Violation{Class: "enumeration_incomplete:" + name, Site: ad.name + "." + name, Detail: fmt.Sprintf("op %d %s enumerated keys %v, model %v", idx, name, got, want)}
	}
	for i := range want {
		if got[i] != want[i] || (hasVals && vs[i] != md.m[want[i]]) {
			return &sim.Violation{Class: "model_mismatch:" + name, Site: ad.name + "." + name, Detail: fmt.Sprintf("op %d %s enumerated keys %v, model %v (or a value differs at %d)", idx, name, got, want, i)}
		}
	}
	return nil
}

// byteKeys: every string of length 0..3 over nine bytes spread over the whole byte range, in
// ascending string order (index 0 is "", the zero value of the key type).
var byteKeys, byteKeyIdx = func() ([]string, map[string]int) {
	alpha := []byte{0x00, '0', 'A', 'a', 0x7f, 0x80, 0xc3, 0xe4, 0xff}
	ks := []string{""}
	for _, a := range alpha {
		ks = append(ks, string([]byte{a}))
		for _, b := range alpha {
			ks = append(ks, string([]byte{a, b}))
			for _, c := range alpha {
				ks = append(ks, string([]byte{a, b, c}))
			}
		}
	}
	sort.Strings(ks)
	idx := map[string]int{}
	for i, k := range ks {
		idx[k] = i
	}
	return ks, idx
}()

func exec(c *sim.Case, out *sim.WorkerOut) (*sim.Violation, bool) {
	domain = c.P("domain")
	if domain < 16 {
		domain = 16
	}
	if domain > 2000 {
		domain = 2000
	}
	smrand.Word = towerWords(c.P("dist"), c.EnvSeed)
	smrand.Words, smrand.Sources = 0, 0
	stime.Clock = int64(c.EnvSeed % 1000000007)
	dg := engc.NewDigest()
	var v *sim.Violation
	var nt bool
	start := c.P("start")
	switch c.P("kind") {
	case 0:
		v, nt = execTyped(c, ordinary(start, func(i int) int { return (i - 2) * 3 }, func(k int) int { return k/3 + 2 }), out, dg)
	case 1:
		v, nt = execTyped(c, ordinary(start, func(i int) string {
			if i == 0 {
				return "" // the zero value of the key type is a key like any other
			}
			return fmt.Sprintf("k%04d", i)
		}, func(k string) int { var i int; fmt.Sscanf(k, "k%04d", &i); return i }), out, dg)
	case 2:
		v, nt = execTyped(c, ordinary(start, func(i int) uint16 { return uint16(i * 32) }, func(k uint16) int { return int(k) / 32 }), out, dg)
	case 8:
		// strings over the whole byte range (NUL, ASCII, DEL, UTF-8 lead and continuation bytes,
		// 0xff), some prefixes of others: index order is Go's string order
		if domain > len(byteKeys) {
			domain = len(byteKeys)
		}
		v, nt = execTyped(c, ordinary(start, func(i int) string {
			if i < 0 {
				return ""
			}
			if i >= len(byteKeys) {
				return byteKeys[len(byteKeys)-1] + strings.Repeat("\xff", i-len(byteKeys)+1)
			}
			return byteKeys[i]
		}, func(k string) int {
			if i, ok := byteKeyIdx[k]; ok {
				return i
			}
			return len(byteKeys) + len(k) // beyond the table (bounds only)
		}), out, dg)
	case 7:
		// floating-point keys: negative, fractional, and index 2 is 0.0 (the zero value of the key type)
		v, nt = execTyped(c, ordinary(start, func(i int) float64 { return float64(i-2) * 0.25 }, func(k float64) int { return int(k*4) + 2 }), out, dg)
	case 9:
		// a comparator that answers with the extremes of int (legal: only the sign matters)
		v, nt = execTyped(c, withCmp(start, func(a, b int) int {
			switch {
			case a < b:
				return math.MinInt
			case a > b:
				return math.MaxInt
			}
			return 0
		}, func(i int) int { return i }, func(k int) int { return k }, func(i int) int { return i }), out, dg)
	case 10:
		// pointer keys with a comparator that dereferences: the zero value of the key type (nil)
		// is not a key and must never reach the comparator (the list's own head node holds one)
		v, nt = execTyped(c, withCmp(start, func(a, b *int) int { return *a - *b }, func(i int) *int { return &i }, func(k *int) int {
			if k == nil {
				return -1 << 30
			}
			return *k
		}, func(i int) int { return i }), out, dg)
	case 3:
		v, nt = execTyped(c, withCmp(start, func(a, b int) int { return a - b }, func(i int) int { return i }, func(k int) int { return k }, func(i int) int { return i }), out, dg)
	case 4:
		v, nt = execTyped(c, withCmp(start, func(a, b int) int { return b - a }, func(i int) int { return i }, func(k int) int { return k }, func(i int) int { return -i }), out, dg)
	case 5:
		cmp := func(a, b pair) int {
			if a.A != b.A {
				return a.A - b.A
			}
			return a.B - b.B
		}
		v, nt = execTyped(c, withCmp(start, cmp, func(i int) pair { return pair{i / 64, i % 64} }, func(k pair) int { return k.A*64 + k.B }, func(i int) int { return i }), out, dg)
	default:
		cmp := func(a, b string) int {
			if len(a) != len(b) {
				return len(a) - len(b)
			}
			switch {
			case a < b:
				return -1
			case a > b:
				return 1
			}
			return 0
		}
		v, nt = execTyped(c, withCmp(start, cmp, lenLexKey, lenLexIdx, func(i int) int { return i }), out, dg)
	}
	out.Faults["tower_word_drawn"] += smrand.Words
	if c.P("dist") != 0 {
		out.Faults["adversarial_tower_distribution"]++
	}
	if c.P("aged") == 1 {
		out.Probes["instance_aged_by_2^8_or_2^16_cheap_mutations_between_two_lookups"]++
	}
	if start == 2 {
		out.Faults["zero_value_start"]++
	}
	c.LogHash = dg.Hex()
	_ = bits.Len
	return v, nt
}

func main() {
	engc.Main(&engc.Spec{ID: "C02", Gen: gen, Exec: exec})
}
