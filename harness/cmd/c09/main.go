// C09 — secret-based encryption: round trip, OpenSSL format, tamper evidence, chunking (Engine C).
//
// The simulated system is encryptor -> medium -> decryptor.  The simulator owns the entropy
// source (crypto/rand -> scrand), the io.Reader and io.Writer peers (chunking, EOF placement,
// errors after k bytes) and the medium (bit flips, truncation, extension, text substitutions).
// Oracles: an independent EVP_BytesToKey(MD5,1)/AES derivation with the Go standard library,
// round trip, prefix-only-on-fault.
package main

import (
	"bufio"
	"bytes"
	"crypto/aes"
	"crypto/cipher"
	"crypto/md5"
	"encoding/base64"
	"encoding/hex"
	"errors"
	"fmt"
	"io"
	osexec "os/exec"
	"strings"

	"harness/engc"
	"harness/sim"

	"github.com/welllog/golib/cryptz"
	"github.com/welllog/golib/zzsim/core"
	"github.com/welllog/golib/zzsim/scrand"
)

// ---------------------------------------------------------------------------------------
// independent reference

func evp(secret, salt []byte) (key, iv []byte) {
	var d, prev []byte
	for len(d) < 48 {
		h := md5.New()
		h.Write(prev)
		h.Write(secret)
		h.Write(salt)
		prev = h.Sum(nil)
		d = append(d, prev...)
	}
	return d[:32], d[32:48]
}

func refCBC(p, secret, salt []byte) []byte {
	key, iv := evp(secret, salt)
	pad := 16 - len(p)%16
	buf := append(append([]byte{}, p...), bytes.Repeat([]byte{byte(pad)}, pad)...)
	b, _ := aes.NewCipher(key)
	cipher.NewCBCEncrypter(b, iv).CryptBlocks(buf, buf)
	return append(append([]byte("Salted__"), salt...), buf...)
}

func refGCM(p, secret, aad, salt []byte) []byte {
	key, iv := evp(secret, salt)
	b, _ := aes.NewCipher(key)
	g, _ := cipher.NewGCM(b)
	return append(append([]byte("Salted__"), salt...), g.Seal(nil, iv[:12], p, aad)...)
}

func refCTR(p, secret, salt []byte) []byte {
	key, iv := evp(secret, salt)
	b, _ := aes.NewCipher(key)
	out := make([]byte, len(p))
	cipher.NewCTR(b, iv).XORKeyStream(out, p)
	return append(append([]byte("Salted__"), salt...), out...)
}

// ---------------------------------------------------------------------------------------
// simulated peers

var errRead = errors.New("simulated read error")
var errWrite = errors.New("simulated write error")

type simReader struct {
	data      []byte
	pos       int
	pol       int
	r         *sim.Rng
	failAt    int  // -1: never; otherwise a read error once failAt bytes have been delivered
	failData  bool // deliver the last bytes together with the error
	zeros     int
	calls     int
	first     bool
	stats     map[string]int
	burstInit bool
	burstAt   int
	burstLeft int
	nest      func() // called from inside one Read: the peer itself uses the package meanwhile
	nestAt    int
}

func (s *simReader) Read(p []byte) (int, error) {
	s.calls++
	if s.nest != nil && s.calls == s.nestAt {
		s.nest()
	}
	if len(p) == 0 {
		return 0, nil
	}
	if s.failAt >= 0 && s.pos >= s.failAt {
		s.stats["reader_error"]++
		return 0, errRead
	}
	if s.pos >= len(s.data) {
		return 0, io.EOF
	}
	n := len(s.data) - s.pos
	switch s.pol {
	case 1:
		n = 1
	case 2:
		n = 1 + s.r.N(40)
	case 3: // sizes straddling the 16-byte header
		if !s.first {
			n = []int{1, 7, 8, 9, 15, 17}[s.r.N(6)]
		} else {
			n = 1 + s.r.N(20)
		}
	case 5: // (0, nil) reads, bounded
		if s.zeros < 4 && s.r.Pct(30) {
			s.zeros++
			s.stats["zero_length_read"]++
			return 0, nil
		}
		n = 1 + s.r.N(24)
	case 12: // a source that stalls: one long run of consecutive (0, nil) reads at one position
		if !s.burstInit {
			s.burstInit = true
			s.burstLeft = []int{99, 100, 101, 150, 300}[s.r.N(5)]
			switch s.r.N(3) {
			case 0:
				s.burstAt = 0
			case 1:
				s.burstAt = s.r.N(17) // inside (or right after) a 16-byte header
			default:
				s.burstAt = s.r.N(len(s.data) + 1)
			}
		}
		if s.pos >= s.burstAt && s.burstLeft > 0 {
			s.burstLeft--
			s.stats["zero_length_read"]++
			if s.burstLeft == 0 {
				s.stats["run_of_99+_consecutive_zero_length_reads"]++
			}
			return 0, nil
		}
		n = 1 + s.r.N(24)
		if s.burstLeft > 0 && s.pos+n > s.burstAt {
			n = s.burstAt - s.pos
		}
	case 10, 11: // a hesitant source: a (0, nil) read before every small piece of data, hundreds in all
		if s.zeros < 600 && s.calls%2 == 1 {
			s.zeros++
			s.stats["zero_length_read"]++
			if s.zeros == 100 {
				s.stats["hundred_zero_length_reads_in_one_stream"]++
			}
			return 0, nil
		}
		n = 1
		if s.pol == 11 {
			n = 7
		}
	case 6: // exactly the header, then the rest
		if !s.first {
			n = 16
		}
	}
	s.first = true
	if n > len(p) {
		n = len(p)
	}
	if rem := len(s.data) - s.pos; n > rem {
		n = rem
	}
	if s.failAt >= 0 && s.pos+n > s.failAt {
		n = s.failAt - s.pos
	}
	if n < len(p) {
		s.stats["short_read"]++
	}
	copy(p, s.data[s.pos:s.pos+n])
	s.pos += n
	if s.failAt >= 0 && s.pos >= s.failAt {
		if s.failData {
			s.stats["reader_error"]++
			s.stats["data_with_error"]++
			return n, errRead
		}
		return n, nil // the error comes with the next call
	}
	if s.pos == len(s.data) && (s.pol == 4 || s.pol == 3) {
		s.stats["data_with_eof"]++
		return n, io.EOF
	}
	return n, nil
}

type simWriter struct {
	buf    bytes.Buffer
	failAt int // -1: never; otherwise only failAt bytes are accepted in total
	stats  map[string]int
	calls  int
	nest   func()
	nestAt int
}

func (w *simWriter) Write(p []byte) (int, error) {
	w.calls++
	if w.nest != nil && w.calls == w.nestAt {
		w.nest()
	}
	if w.failAt >= 0 && w.buf.Len()+len(p) > w.failAt {
		n := w.failAt - w.buf.Len()
		if n < 0 {
			n = 0
		}
		w.buf.Write(p[:n])
		w.stats["writer_error"]++
		return n, errWrite
	}
	w.buf.Write(p)
	return len(p), nil
}

// ---------------------------------------------------------------------------------------

var scenNames = []string{"cbc_roundtrip", "gcm_roundtrip", "stream_roundtrip", "entropy_error", "gcm_tamper", "cbc_tamper", "stream_fault", "garbage", "buffer_reuse"}

func gen(r *sim.Rng, tier string) *sim.Case {
	c := &sim.Case{Params: map[string]int{}}
	p := c.Params
	p["scen"] = r.Pick(3, 3, 4, 1, 4, 2, 4, 3, 2)
	plens := []int{0, 1, 15, 16, 17, 31, 32, 33, 47, 48, 64, 100, 200}
	p["plen"] = plens[r.N(len(plens))]
	if r.Pct(30) {
		p["plen"] = r.N(201)
	}
	if r.Pct(2) || (p["scen"] == 2 && r.Pct(6)) || (tier == "thorough" && r.Pct(5)) {
		p["plen"] = []int{1024, 4096, 32767, 32768, 32769, 65536}[r.N(6)] + r.N(3) - 1 // crosses io.Copy's 32 KiB buffer
		if r.Bool() {
			p["plen"] = r.N(70000)
		}
	}
	if r.Pct(1) {
		p["plen"] = r.Range(100000, 300000)
	}
	p["slen"] = []int{0, 1, 8, 16, 32, 33, 100}[r.N(7)]
	if r.Pct(60) {
		p["slen"] = r.N(140) // every length around the digest/block sizes of the key derivation
	}
	p["alen"] = []int{0, 0, 1, 12, 16, 40}[r.N(6)]
	if r.Pct(40) {
		p["alen"] = r.N(100)
	}
	if r.Pct(3) {
		p["slen"] = r.Range(140, 700)
		p["alen"] = r.Range(100, 700)
	}
	if r.Pct(4) {
		// a long secret (a key file, a generated token) with a length near a round number, where
		// a fixed-size scratch buffer for the key derivation would end: 2^k and k*1000, -48..+16
		base := []int{256, 512, 1000, 1024, 2000, 2048, 4096, 8192, 16384}[r.N(9)]
		p["slen"] = base - 48 + r.N(65)
	}
	p["variant"] = r.N(8) // bit0: plaintext as string, bit1: secret as string, bit2: aad as string
	if r.Pct(12) {
		p["named"] = 1 // the caller's own named string and []byte types
	}
	p["emode"] = r.Pick(6, 1, 1)
	p["echunk"] = []int{0, 0, 1, 3, 7}[r.N(5)]
	p["rpol"] = r.N(17)
	p["rpol2"] = r.N(17)
	p["rfail"] = -1
	p["wfail"] = -1
	switch p["scen"] {
	case 3:
		p["efail"] = 1 + r.N(3)
		p["api"] = r.N(5)
	case 4, 5:
		p["tkind"] = r.N(11)
		p["tpos"] = r.N(1 << 16)
		p["tbit"] = r.N(8)
	case 6:
		p["side"] = r.N(2)     // 0: fault while encrypting, 1: while decrypting
		p["which"] = r.N(2)    // 0: reader fails, 1: writer fails
		p["at"] = r.N(1 << 16) // position, reduced modulo the relevant length (+1)
		p["fdata"] = r.N(2)
	case 2:
		if r.Pct(12) {
			p["nest"] = 1 + r.N(11) // bit0: from the reader, bit1: from the writer, rest: at which call
		}
	case 8:
		p["api"] = r.N(3)
		p["smut"] = r.N(3)
		p["tpos"] = r.N(1 << 16)
		p["tbit"] = r.N(8)
	case 7:
		p["glen"] = r.N(90)
		if r.Pct(20) {
			p["glen"] = r.N(400)
		}
		p["gkind"] = r.N(5)
		p["api"] = r.N(5)
	}
	if (p["scen"] <= 2 || p["scen"] == 8) && r.Pct(3) {
		p["ivedge"] = 1 + r.N(8)
		if p["plen"] < 80 {
			p["plen"] = 80 + r.N(200) // several blocks, so that the counter is incremented past the carry
		}
	}
	c.EnvSeed = r.U64() >> 12
	return c
}

type world struct {
	c       *sim.Case
	out     *sim.WorkerOut
	dg      *engc.Digest
	r       *sim.Rng
	plain   []byte
	secret  []byte
	nestErr string
	aad     []byte
	stats   map[string]int
}

func viol(class, site, format string, a ...any) *sim.Violation {
	return &sim.Violation{Class: class, Site: "cryptz." + site, Detail: fmt.Sprintf(format, a...)}
}

var ivEdge = []struct {
	secret string
	mode   int // scrand.Mode that makes the salt
	iv     string
}{
	{"key-1970207", 3, "2d0093c1465cce2e5b377c14fffffffd"},
	{"key-109438002", 2, "f899e431f8876adcd04a950efffffffd"},
	{"key-405904260", 3, "c08b9c839bdbc0f87703a79ffffffffc"},
	{"key-523782547", 1, "678391ba7031b87caa070712fffffff8"},
}

func setEntropy(p map[string]int) {
	scrand.Reset()
	scrand.Mode = p["emode"]
	scrand.MaxChunk = p["echunk"]
	if p["efail"] > 0 {
		scrand.FailAt = p["efail"]
	}
}

// the generic entry points, instantiated for string and []byte as the variant says
func (w *world) encrypt() ([]byte, error) {
	v := w.c.P("variant")
	if w.c.P("named") == 1 {
		if v&1 == 0 {
			return cryptz.Encrypt(nBytes(w.plain), nString(w.secret))
		}
		return cryptz.Encrypt(nString(w.plain), nBytes(w.secret))
	}
	switch v & 3 {
	case 0:
		return cryptz.Encrypt(w.plain, w.secret)
	case 1:
		return cryptz.Encrypt(string(w.plain), w.secret)
	case 2:
		return cryptz.Encrypt(w.plain, string(w.secret))
	}
	return cryptz.Encrypt(string(w.plain), string(w.secret))
}

// Named types: the functions are generic over ~string | ~[]byte, and callers do pass their own
// types (a Password, a KeyFile, a Document).
type (
	nString string
	nBytes  []byte
)

func (w *world) decrypt(ct []byte) ([]byte, error) {
	v := w.c.P("variant")
	if w.c.P("named") == 1 {
		if v&1 == 0 {
			return cryptz.Decrypt(nBytes(append([]byte{}, ct...)), nString(w.secret))
		}
		return cryptz.Decrypt(nString(ct), nBytes(w.secret))
	}
	switch v & 3 {
	case 0:
		return cryptz.Decrypt(append([]byte{}, ct...), w.secret)
	case 1:
		return cryptz.Decrypt(string(ct), w.secret)
	case 2:
		return cryptz.Decrypt(append([]byte{}, ct...), string(w.secret))
	}
	return cryptz.Decrypt(string(ct), string(w.secret))
}

func (w *world) gcmEncrypt() ([]byte, error) {
	v := w.c.P("variant")
	if w.c.P("named") == 1 {
		if v&1 == 0 {
			return cryptz.GCMEncrypt(nBytes(w.plain), nString(w.secret), nBytes(w.aad))
		}
		return cryptz.GCMEncrypt(nString(w.plain), nBytes(w.secret), nString(w.aad))
	}
	switch v {
	case 0:
		return cryptz.GCMEncrypt(w.plain, w.secret, w.aad)
	case 1:
		return cryptz.GCMEncrypt(string(w.plain), w.secret, w.aad)
	case 2:
		return cryptz.GCMEncrypt(w.plain, string(w.secret), w.aad)
	case 3:
		return cryptz.GCMEncrypt(string(w.plain), string(w.secret), w.aad)
	case 4:
		return cryptz.GCMEncrypt(w.plain, w.secret, string(w.aad))
	case 5:
		return cryptz.GCMEncrypt(string(w.plain), w.secret, string(w.aad))
	case 6:
		return cryptz.GCMEncrypt(w.plain, string(w.secret), string(w.aad))
	}
	return cryptz.GCMEncrypt(string(w.plain), string(w.secret), string(w.aad))
}

func (w *world) gcmDecrypt(ct, secret, aad []byte) ([]byte, error) {
	v := w.c.P("variant")
	if w.c.P("named") == 1 {
		if v&1 == 0 {
			return cryptz.GCMDecrypt(nBytes(append([]byte{}, ct...)), nString(secret), nBytes(aad))
		}
		return cryptz.GCMDecrypt(nString(ct), nBytes(secret), nString(aad))
	}
	switch v & 6 {
	case 0:
		return cryptz.GCMDecrypt(append([]byte{}, ct...), secret, aad)
	case 2:
		return cryptz.GCMDecrypt(string(ct), string(secret), aad)
	case 4:
		return cryptz.GCMDecrypt(append([]byte{}, ct...), secret, string(aad))
	}
	return cryptz.GCMDecrypt(string(ct), string(secret), string(aad))
}

func (w *world) encStream(out io.Writer, in io.Reader) error {
	if w.c.P("named") == 1 {
		if w.c.P("variant")&1 == 0 {
			return cryptz.EncryptStreamTo(out, in, nString(w.secret))
		}
		return cryptz.EncryptStreamTo(out, in, nBytes(w.secret))
	}
	if w.c.P("variant")&2 != 0 {
		return cryptz.EncryptStreamTo(out, in, string(w.secret))
	}
	return cryptz.EncryptStreamTo(out, in, w.secret)
}

func (w *world) decStream(out io.Writer, in io.Reader) error {
	if w.c.P("named") == 1 {
		if w.c.P("variant")&1 == 0 {
			return cryptz.DecryptStreamTo(out, in, nString(w.secret))
		}
		return cryptz.DecryptStreamTo(out, in, nBytes(w.secret))
	}
	if w.c.P("variant")&2 != 0 {
		return cryptz.DecryptStreamTo(out, in, string(w.secret))
	}
	return cryptz.DecryptStreamTo(out, in, w.secret)
}

func (w *world) reader(data []byte, pol, failAt int, failData bool) *simReader {
	return &simReader{data: data, pol: pol, r: sim.NewRng(w.r.U64()), failAt: failAt, failData: failData, stats: w.stats}
}

// peerReader returns the reader of a fault-free stream run: one of the simulated chunking
// policies, or (policies 7..9) one of the standard library readers real callers pass, which
// implement io.WriterTo and hand over everything in one Write.
func (w *world) peerReader(data []byte, pol int) (io.Reader, func() int) {
	// the standard library readers real callers pass; half of the time the caller has already
	// consumed a prefix (a header of its own, a byte it peeked at), or the data is a section of
	// something bigger: the stream is what is LEFT to read, not what the reader was built from
	pre := 0
	if pol >= 7 && pol <= 9 || pol == 13 {
		w.stats["stdlib_reader_with_WriteTo"]++
		if w.r.Bool() {
			pre = 1 + w.r.N(20)
			w.stats["stdlib_reader_partly_consumed_before_the_call"]++
		}
	}
	whole := append(append(make([]byte, 0, pre+len(data)), bytes.Repeat([]byte{0x5A}, pre)...), data...)
	switch pol {
	case 7:
		rd := bytes.NewReader(whole)
		io.CopyN(io.Discard, rd, int64(pre))
		return rd, func() int { return 1 }
	case 8:
		b := bytes.NewBuffer(whole)
		b.Next(pre)
		return b, func() int { return 1 }
	case 9:
		rd := strings.NewReader(string(whole))
		for i := 0; i < pre; i++ {
			rd.ReadByte()
		}
		return rd, func() int { return 1 }
	case 13:
		// a section of a larger file-like source, possibly after a Seek
		tail := w.r.N(9)
		src := bytes.NewReader(append(whole, bytes.Repeat([]byte{0xA5}, tail)...))
		if w.r.Bool() {
			return io.NewSectionReader(src, int64(pre), int64(len(data))), func() int { return 1 }
		}
		sr := io.NewSectionReader(src, 0, int64(pre+len(data)))
		sr.Seek(int64(pre), io.SeekStart)
		return sr, func() int { return 1 }
	}
	switch pol {
	case 14:
		// several sources behind io.MultiReader (a header the caller prepends, a body, a
		// trailer): it implements io.WriterTo and hands over one chunk per part, of any sizes
		w.stats["stdlib_reader_with_WriteTo"]++
		w.stats["multi_part_WriteTo_source"]++
		var parts []io.Reader
		rest := data
		for k := 1 + w.r.N(4); k > 1 && len(rest) > 0; k-- {
			cut := w.r.N(len(rest) + 1)
			if w.r.Pct(40) {
				cut = w.r.N(40) % (len(rest) + 1) // a short header first, the bulk later
			}
			switch w.r.N(3) {
			case 0:
				parts = append(parts, bytes.NewReader(rest[:cut]))
			case 1:
				parts = append(parts, strings.NewReader(string(rest[:cut])))
			default:
				parts = append(parts, bytes.NewBuffer(append([]byte{}, rest[:cut]...)))
			}
			rest = rest[cut:]
		}
		parts = append(parts, bytes.NewReader(rest))
		return io.MultiReader(parts...), func() int { return len(parts) }
	case 15:
		// a bufio.Reader the caller has already read from: WriteTo hands over what is buffered,
		// then whatever the underlying source delivers
		w.stats["stdlib_reader_with_WriteTo"]++
		w.stats["multi_part_WriteTo_source"]++
		pre := w.r.N(20)
		whole := append(append(make([]byte, 0, pre+len(data)), bytes.Repeat([]byte{0x5A}, pre)...), data...)
		br := bufio.NewReaderSize(bytes.NewReader(whole), []int{16, 64, 512, 4096, 8192}[w.r.N(5)])
		br.Peek(1)
		br.Discard(pre)
		return br, func() int { return 2 }
	case 16:
		// a source of the caller's own that implements io.WriterTo and writes chunks of its
		// own choosing (growing, shrinking, some beyond 32 KiB)
		w.stats["multi_part_WriteTo_source"]++
		cw := &chunkWriterTo{data: data, r: sim.NewRng(w.r.U64())}
		return cw, func() int { return cw.chunks }
	}
	rd := w.reader(data, pol, -1, false)
	return rd, func() int { return rd.calls }
}

// chunkWriterTo is an io.Reader that also implements io.WriterTo, as io.Copy prefers.
type chunkWriterTo struct {
	data   []byte
	pos    int
	chunks int
	r      *sim.Rng
}

func (c *chunkWriterTo) Read(p []byte) (int, error) {
	if c.pos >= len(c.data) {
		return 0, io.EOF
	}
	n := copy(p, c.data[c.pos:])
	c.pos += n
	return n, nil
}

func (c *chunkWriterTo) WriteTo(dst io.Writer) (int64, error) {
	var total int64
	for c.pos < len(c.data) {
		n := []int{1, 15, 16, 17, 100, 4096, 32768, 32769, 40000, 70000}[c.r.N(10)]
		if c.r.Pct(30) {
			n = 1 + c.r.N(50000)
		}
		if n > len(c.data)-c.pos {
			n = len(c.data) - c.pos
		}
		// the chunk is the source's own buffer: the destination must not keep or change it
		chunk := append([]byte{}, c.data[c.pos:c.pos+n]...)
		m, err := dst.Write(chunk)
		c.chunks++
		total += int64(m)
		c.pos += m
		if err != nil {
			return total, err
		}
		if m != n {
			return total, io.ErrShortWrite
		}
		if !bytes.Equal(chunk, c.data[c.pos-n:c.pos]) {
			return total, errors.New("the destination modified the chunk it was given")
		}
	}
	return total, nil
}

// spare gives an argument buffer spare capacity filled with a canary (in half of the cases):
// what lies between len and cap of a slice the caller passes belongs to the caller too.
func (w *world) spare(b []byte) []byte {
	if w.c.EnvSeed&1 == 0 {
		return b[:len(b):len(b)] // no spare capacity at all
	}
	k := 16 + int(w.c.EnvSeed>>1)%33
	buf := make([]byte, len(b)+k)
	copy(buf, b)
	for i := len(b); i < len(buf); i++ {
		buf[i] = 0xC5
	}
	return buf[:len(b)]
}

func canaryIntact(b []byte) bool {
	for _, x := range b[len(b):cap(b)] {
		if x != 0xC5 {
			return false
		}
	}
	return true
}

func (w *world) inputsIntact(p0, s0, a0 []byte, site string) *sim.Violation {
	if !canaryIntact(w.plain) || !canaryIntact(w.secret) || !canaryIntact(w.aad) {
		return viol("input_modified", site, "the call wrote into the spare capacity (between len and cap) of its plaintext, secret or additional data argument")
	}
	if !bytes.Equal(p0, w.plain) || !bytes.Equal(s0, w.secret) || !bytes.Equal(a0, w.aad) {
		return viol("input_modified", site, "the call modified its plaintext, secret or additional data argument")
	}
	return nil
}

func exec(c *sim.Case, out *sim.WorkerOut) (*sim.Violation, bool) {
	core.EnvSeed(c.EnvSeed ^ 0x5eed) // the entropy bytes of this case depend on the case alone (replayable)
	w := &world{c: c, out: out, dg: engc.NewDigest(), r: sim.NewRng(c.EnvSeed), stats: map[string]int{}}
	p := c.Params
	w.plain = w.spare(w.r.Bytes(p["plen"]))
	w.secret = w.spare(w.r.Bytes(p["slen"]))
	w.aad = w.spare(w.r.Bytes(p["alen"]))
	if w.r.Pct(30) { // printable secrets as a user would type them
		for i := range w.secret {
			w.secret[i] = "abcXYZ019 _-"[int(w.secret[i])%12]
		}
	}
	setEntropy(p)
	if k := p["ivedge"]; k > 0 {
		// a (secret, salt) pair whose derived IV is about to carry out of its low 32 bits: the
		// IV is a hash output nobody can steer, so such pairs were searched for once with the
		// reference derivation (about 2^29 candidates each); the salt is what the entropy
		// source delivers in the named mode
		e := ivEdge[(k-1)%len(ivEdge)]
		w.secret = w.spare([]byte(e.secret))
		scrand.Mode = e.mode
		scrand.MaxChunk = 0
		salt := [][]byte{nil, make([]byte, 8), bytes.Repeat([]byte{0xFF}, 8), {1, 2, 3, 4, 5, 6, 7, 8}}[e.mode]
		if _, iv := evp(w.secret, salt); hex.EncodeToString(iv) != e.iv {
			panic("c09: the IV table does not match the reference derivation")
		}
		w.stats["derived_iv_about_to_carry_out_of_32_bits"]++
	}
	scen := p["scen"]
	if scen < 0 || scen >= len(scenNames) {
		scen = 0
	}
	var v *sim.Violation
	site := []string{"Encrypt", "GCMEncrypt", "EncryptStreamTo", "Encrypt", "GCMDecrypt", "Decrypt", "DecryptStreamTo", "Decrypt", "Decrypt"}[scen]
	pv := engc.Call("cryptz."+site, func() {
		switch scen {
		case 0:
			v = w.cbcRoundtrip()
		case 1:
			v = w.gcmRoundtrip()
		case 2:
			v = w.streamRoundtrip()
		case 3:
			v = w.entropyError()
		case 4:
			v = w.gcmTamper()
		case 5:
			v = w.cbcTamper()
		case 6:
			v = w.streamFault()
		case 7:
			v = w.garbage()
		case 8:
			v = w.bufferReuse()
		}
	})
	if pv != nil {
		pv.Detail += " [scenario " + scenNames[scen] + "]"
		v = pv
	}
	out.Probes["scenario:"+scenNames[scen]]++
	for k, n := range w.stats {
		out.Faults[k] += n
	}
	if scrand.Errors > 0 {
		out.Faults["entropy_error"] += scrand.Errors
	}
	if scrand.MaxChunk > 0 && scrand.Calls > 1 {
		out.Faults["entropy_short_read"]++
	}
	if scrand.Mode != 0 && scrand.Calls > 0 {
		out.Faults["entropy_extreme_bytes"]++
	}
	c.LogHash = w.dg.Hex()
	nontrivial := len(w.stats) > 0 || scrand.Errors > 0 || (scrand.MaxChunk > 0 && scrand.Calls > 1) || scrand.Mode != 0 || scen == 4 || scen == 5 || scen == 7 || scen == 8
	return v, nontrivial
}

func (w *world) cbcRoundtrip() *sim.Violation {
	p0, s0, a0 := append([]byte{}, w.plain...), append([]byte{}, w.secret...), append([]byte{}, w.aad...)
	ct, err := w.encrypt()
	if err != nil {
		return viol("roundtrip", "Encrypt", "Encrypt failed without an entropy error: %v", err)
	}
	if v := w.inputsIntact(p0, s0, a0, "Encrypt"); v != nil {
		return v
	}
	salt := append([]byte{}, scrand.Trace...)
	if len(salt) != 8 {
		return viol("wire_format", "Encrypt", "the encryptor consumed %d entropy bytes, a salt has 8", len(salt))
	}
	want := base64.StdEncoding.EncodeToString(refCBC(w.plain, w.secret, salt))
	if string(ct) != want {
		return viol("wire_format", "Encrypt", "output is not base64(Salted__ || salt || AES-256-CBC(PKCS7(p))) under EVP_BytesToKey(MD5,1): got %.60q want %.60q", ct, want)
	}
	w.dg.Add(ct)
	pt, err := w.decrypt(ct)
	if err != nil || !bytes.Equal(pt, w.plain) {
		return viol("roundtrip", "Decrypt", "Decrypt(Encrypt(p)) = %x, %v; p = %x", pt, err, w.plain)
	}
	// an independently produced envelope (other salt) must decrypt too: interoperability
	other := base64.StdEncoding.EncodeToString(refCBC(w.plain, w.secret, w.r.Bytes(8)))
	pt, err = w.decrypt([]byte(other))
	if err != nil || !bytes.Equal(pt, w.plain) {
		return viol("wire_format", "Decrypt", "an OpenSSL-format envelope made by the reference does not decrypt: %v", err)
	}
	// the lower-level entry point without buffer reuse must not modify its input
	raw := refCBC(w.plain, w.secret, salt)
	raw0 := append([]byte{}, raw...)
	pt, err = cryptz.SaltBySecretCBCDecrypt(raw, w.secret, false)
	if err != nil || !bytes.Equal(pt, w.plain) {
		return viol("roundtrip", "SaltBySecretCBCDecrypt", "decrypt of reference envelope: %v", err)
	}
	if !bytes.Equal(raw, raw0) {
		return viol("input_modified", "SaltBySecretCBCDecrypt", "reuseCipherText=false but the cipher text was modified")
	}
	// with buffer reuse the result must be the same plaintext
	pt, err = cryptz.SaltBySecretCBCDecrypt(raw, w.secret, true)
	if err != nil || !bytes.Equal(pt, w.plain) {
		return viol("roundtrip", "SaltBySecretCBCDecrypt", "reuseCipherText=true: decrypt of reference envelope gave %x, %v", pt, err)
	}
	// the text form as `openssl enc -a` prints it: wrapped at 64 columns
	wrapped := wrap64(want)
	pt, err = w.decrypt([]byte(wrapped))
	if err != nil || !bytes.Equal(pt, w.plain) {
		return viol("roundtrip", "Decrypt", "Decrypt fails on the same base64 wrapped at 64 columns (as openssl prints it): %v", err)
	}
	return nil
}

func wrap64(s string) string {
	var b strings.Builder
	for i := 0; i < len(s); i += 64 {
		e := i + 64
		if e > len(s) {
			e = len(s)
		}
		b.WriteString(s[i:e])
		b.WriteByte(10)
	}
	return b.String()
}

func (w *world) gcmRoundtrip() *sim.Violation {
	p0, s0, a0 := append([]byte{}, w.plain...), append([]byte{}, w.secret...), append([]byte{}, w.aad...)
	ct, err := w.gcmEncrypt()
	if err != nil {
		return viol("roundtrip", "GCMEncrypt", "GCMEncrypt failed without an entropy error: %v", err)
	}
	if v := w.inputsIntact(p0, s0, a0, "GCMEncrypt"); v != nil {
		return v
	}
	salt := append([]byte{}, scrand.Trace...)
	if len(salt) != 8 {
		return viol("wire_format", "GCMEncrypt", "the encryptor consumed %d entropy bytes, a salt has 8", len(salt))
	}
	want := hex.EncodeToString(refGCM(w.plain, w.secret, w.aad, salt))
	if string(ct) != want {
		return viol("wire_format", "GCMEncrypt", "output is not hex(Salted__ || salt || AES-256-GCM(p) || tag) under the MD5 chain: got %.60q want %.60q", ct, want)
	}
	w.dg.Add(ct)
	pt, err := w.gcmDecrypt(ct, w.secret, w.aad)
	if err != nil || !bytes.Equal(pt, w.plain) {
		return viol("roundtrip", "GCMDecrypt", "GCMDecrypt(GCMEncrypt(p)) = %x, %v; p = %x", pt, err, w.plain)
	}
	raw := refGCM(w.plain, w.secret, w.aad, salt)
	raw0 := append([]byte{}, raw...)
	pt, err = cryptz.SaltBySecretGCMDecrypt(raw, w.secret, w.aad, false)
	if err != nil || !bytes.Equal(pt, w.plain) {
		return viol("roundtrip", "SaltBySecretGCMDecrypt", "decrypt of reference envelope: %v", err)
	}
	if !bytes.Equal(raw, raw0) {
		return viol("input_modified", "SaltBySecretGCMDecrypt", "reuseCipherText=false but the cipher text was modified")
	}
	pt, err = cryptz.SaltBySecretGCMDecrypt(raw, w.secret, w.aad, true)
	if err != nil || !bytes.Equal(pt, w.plain) {
		return viol("roundtrip", "SaltBySecretGCMDecrypt", "reuseCipherText=true: decrypt of reference envelope gave %x, %v", pt, err)
	}
	return nil
}

// nested: while a stream call is in progress, its reader or writer uses the package for
// something else (another secret, another message).  Calls share nothing, so neither may
// notice the other (package-level scratch buffers, cached keys or cipher states would).
func (w *world) nested() func() {
	return func() {
		n := len(scrand.Trace)
		defer func() { scrand.Trace = scrand.Trace[:n] }()
		w.stats["nested_call_from_peer"]++
		sec, msg, aad := []byte("the peer's own secret"), []byte("a message of the peer, longer than one block"), []byte("peer")
		if ct, err := cryptz.GCMEncrypt(msg, sec, aad); err == nil {
			if pt, err := cryptz.GCMDecrypt(ct, sec, aad); (err != nil || !bytes.Equal(pt, msg)) && w.nestErr == "" {
				w.nestErr = fmt.Sprintf("a GCM round trip made by the peer from inside a stream call failed: %v", err)
			}
		}
		if ct, err := cryptz.Encrypt(msg, sec); err == nil {
			if pt, err := cryptz.Decrypt(ct, sec); (err != nil || !bytes.Equal(pt, msg)) && w.nestErr == "" {
				w.nestErr = fmt.Sprintf("a CBC round trip made by the peer from inside a stream call failed: %v", err)
			}
		}
		// plain readers and writers (no WriteTo / ReadFrom short cuts), like the outer peers
		var a, b bytes.Buffer
		type ro struct{ io.Reader }
		type wo struct{ io.Writer }
		if err := cryptz.EncryptStreamTo(wo{&a}, ro{bytes.NewReader(msg)}, sec); err == nil {
			if err := cryptz.DecryptStreamTo(wo{&b}, ro{bytes.NewReader(a.Bytes())}, sec); (err != nil || !bytes.Equal(b.Bytes(), msg)) && w.nestErr == "" {
				w.nestErr = fmt.Sprintf("a stream round trip made by the peer from inside a stream call failed: %v", err)
			}
		}
	}
}

func (w *world) streamRoundtrip() *sim.Violation {
	p := w.c.Params
	var mid simWriter
	mid.failAt, mid.stats = -1, w.stats
	rd, _ := w.peerReader(w.plain, p["rpol"])
	if p["nest"] != 0 {
		if sr, ok := rd.(*simReader); ok && p["nest"]&1 != 0 {
			sr.nest, sr.nestAt = w.nested(), 1+p["nest"]>>2%3
		}
		if p["nest"]&2 != 0 {
			mid.nest, mid.nestAt = w.nested(), 1+p["nest"]>>2%3
		}
	}
	if err := w.encStream(&mid, rd); err != nil {
		return viol("roundtrip", "EncryptStreamTo", "EncryptStreamTo failed on a fault-free reader (policy %d): %v", p["rpol"], err)
	}
	salt := append([]byte{}, scrand.Trace...)
	if len(salt) != 8 {
		return viol("wire_format", "EncryptStreamTo", "the encryptor consumed %d entropy bytes, a salt has 8", len(salt))
	}
	want := refCTR(w.plain, w.secret, salt)
	if !bytes.Equal(mid.buf.Bytes(), want) {
		return viol("wire_format", "EncryptStreamTo", "stream is not Salted__ || salt || AES-256-CTR(p) under the MD5 chain (reader policy %d, %d bytes)", p["rpol"], len(w.plain))
	}
	w.dg.Add(mid.buf.Bytes())
	var dst simWriter
	dst.failAt, dst.stats = -1, w.stats
	rd2, calls2 := w.peerReader(mid.buf.Bytes(), p["rpol2"])
	if p["nest"] != 0 {
		if sr, ok := rd2.(*simReader); ok && p["nest"]&1 != 0 {
			sr.nest, sr.nestAt = w.nested(), 1+p["nest"]>>2%3
		}
		if p["nest"]&2 != 0 {
			dst.nest, dst.nestAt = w.nested(), 1+p["nest"]>>2%3
		}
	}
	if err := w.decStream(&dst, rd2); err != nil {
		return viol("roundtrip", "DecryptStreamTo", "DecryptStreamTo failed on a fault-free reader that splits the data (policy %d, %d reads): %v", p["rpol2"], calls2(), err)
	}
	if !bytes.Equal(dst.buf.Bytes(), w.plain) {
		return viol("roundtrip", "DecryptStreamTo", "DecryptStreamTo(EncryptStreamTo(p)) != p (reader policies %d/%d)", p["rpol"], p["rpol2"])
	}
	if w.nestErr != "" {
		return viol("roundtrip", "EncryptStreamTo", "%s", w.nestErr)
	}
	return nil
}

// bufferReuse: the caller keeps plaintext, secret and additional data in buffers of its own and
// overwrites them after a call (reads the next key into the same buffer, wipes a key, reuses
// a message buffer).  Nothing a call returned, and nothing a later call computes, may depend on
// what those buffers held earlier.
func (w *world) bufferReuse() *sim.Violation {
	p := w.c.Params
	api := p["api"] % 3
	names := [][2]string{{"Encrypt", "Decrypt"}, {"GCMEncrypt", "GCMDecrypt"}, {"EncryptStreamTo", "DecryptStreamTo"}}[api]
	scribble := func(b []byte) {
		for i := range b {
			b[i] ^= 0xA5
		}
	}
	enc := func() ([]byte, error) {
		switch api {
		case 0:
			return w.encrypt()
		case 1:
			return w.gcmEncrypt()
		}
		var mid simWriter
		mid.failAt, mid.stats = -1, w.stats
		err := w.encStream(&mid, w.reader(w.plain, 0, -1, false))
		return mid.buf.Bytes(), err
	}
	dec := func(ct []byte) ([]byte, error) {
		switch api {
		case 0:
			return w.decrypt(ct)
		case 1:
			return w.gcmDecrypt(ct, w.secret, w.aad)
		}
		var dst simWriter
		dst.failAt, dst.stats = -1, w.stats
		err := w.decStream(&dst, w.reader(ct, 0, -1, false))
		return dst.buf.Bytes(), err
	}
	ct, err := enc()
	if err != nil {
		return viol("roundtrip", names[0], "%s failed without an entropy error: %v", names[0], err)
	}
	salt := append([]byte{}, scrand.Trace...)
	if len(salt) != 8 {
		return viol("wire_format", names[0], "the encryptor consumed %d entropy bytes, a salt has 8", len(salt))
	}
	// (a) the returned message does not share memory with the arguments
	ct0 := append([]byte{}, ct...)
	scribble(w.plain)
	scribble(w.aad)
	same := bytes.Equal(ct, ct0)
	scribble(w.plain)
	scribble(w.aad)
	if !same {
		return viol("output_aliases_input", names[0], "the message returned by %s changed when the caller overwrote its plaintext / additional data buffers afterwards", names[0])
	}
	w.stats["caller_overwrites_argument_buffers"]++
	// (b) the key buffer is overwritten in place: the old key must not open anything any more
	s1 := append([]byte{}, w.secret...)
	if len(w.secret) > 0 {
		switch p["smut"] {
		case 0:
			w.secret[p["tpos"]%len(w.secret)] ^= 1 << p["tbit"]
		case 1:
			copy(w.secret, w.r.Bytes(len(w.secret)))
		default:
			for i := range w.secret {
				w.secret[i] = 0
			}
		}
	}
	if !bytes.Equal(w.secret, s1) {
		w.stats["caller_overwrites_key_buffer"]++
		pt, err := dec(ct0)
		w.dg.Add(err != nil, len(pt))
		var raw []byte
		switch api {
		case 0:
			raw, _ = base64.StdEncoding.DecodeString(string(ct0))
		case 1:
			raw, _ = hex.DecodeString(string(ct0))
		default:
			raw = ct0
		}
		key, iv := evp(w.secret, salt)
		b, _ := aes.NewCipher(key)
		switch api {
		case 1:
			if err == nil {
				return viol("tamper_accepted", names[1], "GCMDecrypt accepted a message under a different secret (the caller's key buffer was overwritten in place after the encrypting call)")
			}
		case 0:
			if err == nil && len(raw) >= 32 && (len(raw)-16)%16 == 0 {
				out := make([]byte, len(raw)-16)
				cipher.NewCBCDecrypter(b, iv).CryptBlocks(out, raw[16:])
				if len(pt) > len(out) || !bytes.Equal(pt, out[:len(pt)]) {
					return viol("wire_format", names[1], "Decrypt under a secret written into the reused key buffer returned bytes that are not the AES-256-CBC decryption under the key derived from that secret")
				}
			}
		default:
			out := make([]byte, len(raw)-16)
			cipher.NewCTR(b, iv).XORKeyStream(out, raw[16:])
			if err != nil || !bytes.Equal(pt, out) {
				return viol("wire_format", names[1], "DecryptStreamTo under a secret written into the reused key buffer is not AES-256-CTR under the key derived from that secret (err %v)", err)
			}
		}
	}
	// (c) the original key is read back into the buffer: the message opens again
	copy(w.secret, s1)
	pt, err := dec(ct0)
	if err != nil || !bytes.Equal(pt, w.plain) {
		return viol("roundtrip", names[1], "%s(%s(p)) = %d bytes, %v after the key buffer held another key in between", names[1], names[0], len(pt), err)
	}
	// (d) the returned plaintext does not share memory with the message buffer
	if api != 2 && p["variant"]&1 == 0 {
		buf := append([]byte{}, ct0...)
		var pt2 []byte
		if api == 0 {
			pt2, err = cryptz.Decrypt(buf, w.secret)
		} else {
			pt2, err = cryptz.GCMDecrypt(buf, w.secret, w.aad)
		}
		if err != nil || !bytes.Equal(pt2, w.plain) {
			return viol("roundtrip", names[1], "%s of the message in a caller buffer: %v", names[1], err)
		}
		scribble(buf)
		if !bytes.Equal(pt2, w.plain) {
			return viol("output_aliases_input", names[1], "the plaintext returned by %s changed when the caller reused its message buffer", names[1])
		}
	}
	return nil
}

func (w *world) entropyError() *sim.Violation {
	var err error
	var name string
	switch w.c.P("api") {
	case 0:
		name = "Encrypt"
		_, err = w.encrypt()
	case 1:
		name = "GCMEncrypt"
		_, err = w.gcmEncrypt()
	case 2:
		name = "EncryptStreamTo"
		var mid simWriter
		mid.failAt, mid.stats = -1, w.stats
		err = w.encStream(&mid, w.reader(w.plain, 0, -1, false))
	case 3:
		name = "SaltBySecretCBCEncrypt"
		_, err = cryptz.SaltBySecretCBCEncrypt(w.plain, w.secret)
	default:
		name = "SaltBySecretGCMEncrypt"
		_, err = cryptz.SaltBySecretGCMEncrypt(w.plain, w.secret, w.aad)
	}
	// with short reads the failing call may never be reached: 8 bytes need ceil(8/chunk) calls
	reached := scrand.Errors > 0
	if reached && err == nil {
		return viol("entropy_error_ignored", name, "the entropy source failed (call %d) but %s returned no error", scrand.FailAt, name)
	}
	if !reached && err != nil {
		return viol("roundtrip", name, "%s failed although the entropy source did not: %v", name, err)
	}
	return nil
}

// mediumFault applies one fault of the medium to a raw envelope; returns the text to feed the
// decryptor (hex for GCM) and whether the decoded bytes differ from the original.
func tamperRaw(raw []byte, kind, pos, bit int) ([]byte, string) {
	out := append([]byte{}, raw...)
	switch kind {
	case 0: // flip in magic
		out[pos%8] ^= 1 << bit
		return out, "bit flip in magic"
	case 1: // flip in salt
		out[8+pos%8] ^= 1 << bit
		return out, "bit flip in salt"
	case 2: // flip in body (ciphertext or tag)
		if len(out) > 16 {
			out[16+pos%(len(out)-16)] ^= 1 << bit
		}
		return out, "bit flip in ciphertext/tag"
	case 3: // flip in the last 16 bytes (tag for GCM, last block for CBC)
		out[len(out)-1-pos%16] ^= 1 << bit
		return out, "bit flip in tag/last block"
	case 4: // truncation
		return out[:pos%len(out)], "truncation"
	case 5: // extension
		return append(out, byte(pos), byte(bit))[:len(out)+1+pos%2], "extension"
	}
	return out, "none"
}

func (w *world) gcmTamper() *sim.Violation {
	p := w.c.Params
	ct, err := w.gcmEncrypt()
	if err != nil {
		return viol("roundtrip", "GCMEncrypt", "GCMEncrypt failed: %v", err)
	}
	raw, _ := hex.DecodeString(string(ct))
	kind := p["tkind"]
	secret, aad := w.secret, w.aad
	text := ct
	differs := true
	what := ""
	switch {
	case kind <= 5:
		var t []byte
		t, what = tamperRaw(raw, kind, p["tpos"], p["tbit"])
		differs = !bytes.Equal(t, raw)
		text = []byte(hex.EncodeToString(t))
	case kind == 6: // character substitution in the text encoding
		text = append([]byte{}, ct...)
		i := p["tpos"] % len(text)
		repl := "0123456789abcdefABCDEFg xz"[p["tbit"]*3%26]
		text[i] = repl
		dec, derr := hex.DecodeString(string(text))
		differs = derr != nil || !bytes.Equal(dec, raw)
		what = fmt.Sprintf("text character %d replaced by %q", i, repl)
		if !differs {
			w.stats["medium_same_bytes_other_text"]++
		}
	case kind == 9 || kind == 10: // a single bit flipped in one character of the text / an arbitrary byte
		text = append([]byte{}, ct...)
		i := p["tpos"] % len(text)
		if kind == 9 {
			text[i] ^= 1 << p["tbit"]
		} else {
			text[i] = byte(p["tpos"] >> 8)
		}
		dec, derr := hex.DecodeString(string(text))
		differs = derr != nil || !bytes.Equal(dec, raw)
		what = fmt.Sprintf("text character %d changed to %#02x", i, text[i])
		if !differs {
			w.stats["medium_same_bytes_other_text"]++
		}
	case kind == 7: // wrong secret
		secret = append(append([]byte{}, w.secret...), byte(p["tbit"]))
		if len(w.secret) > 0 && p["tpos"]%2 == 0 {
			secret = append([]byte{}, w.secret...)
			secret[p["tpos"]%len(secret)] ^= 1 << p["tbit"]
		}
		what = "different secret"
	default: // (kind 8) wrong additional data
		aad = append(append([]byte{}, w.aad...), byte(p["tbit"]))
		if len(w.aad) > 0 && p["tpos"]%2 == 0 {
			aad = append([]byte{}, w.aad...)
			aad[p["tpos"]%len(aad)] ^= 1 << p["tbit"]
		}
		what = "different additional data"
	}
	w.stats["medium_fault:"+what[:min(len(what), 12)]]++
	pt, err := w.gcmDecrypt(text, secret, aad)
	w.dg.Add(err != nil)
	if differs && err == nil {
		return viol("tamper_accepted", "GCMDecrypt", "GCMDecrypt accepted a message after: %s (returned %d bytes)", what, len(pt))
	}
	if !differs && (err != nil || !bytes.Equal(pt, w.plain)) {
		return viol("roundtrip", "GCMDecrypt", "GCMDecrypt rejected an encoding of the same bytes (%s): %v", what, err)
	}
	return nil
}

func (w *world) cbcTamper() *sim.Violation {
	p := w.c.Params
	ct, err := w.encrypt()
	if err != nil {
		return viol("roundtrip", "Encrypt", "Encrypt failed: %v", err)
	}
	raw, _ := base64.StdEncoding.DecodeString(string(ct))
	kind := p["tkind"] % 7
	var text []byte
	what := ""
	if kind <= 5 {
		var t []byte
		t, what = tamperRaw(raw, kind, p["tpos"], p["tbit"])
		text = []byte(base64.StdEncoding.EncodeToString(t))
		w.stats["medium_fault:"+what[:min(len(what), 12)]]++
		pt, err := w.decrypt(text)
		w.dg.Add(err != nil, len(pt))
		// unauthenticated: error or some bytes, never a panic; an error whenever the
		// envelope is not magic + salt + a whole number (>=1) of blocks
		wellFormed := len(t) >= 32 && len(t)%16 == 0 && bytes.Equal(t[:8], []byte("Salted__"))
		if !wellFormed && err == nil {
			return viol("tamper_accepted", "Decrypt", "Decrypt returned no error for an envelope of %d bytes that is not Salted__+salt+whole blocks (%s)", len(t), what)
		}
		return nil
	}
	// truncation / substitution of the text itself
	text = append([]byte{}, ct...)
	if p["tbit"]%2 == 0 {
		text = text[:p["tpos"]%len(text)]
		what = "text truncated"
	} else {
		text[p["tpos"]%len(text)] = "AZaz09+/=-_ \n!"[p["tbit"]*5%14]
		what = "text character substituted"
	}
	w.stats["medium_fault:"+what[:12]]++
	pt, err := w.decrypt(text)
	w.dg.Add(err != nil, len(pt))
	dec, derr := base64.StdEncoding.DecodeString(string(text))
	wellFormed := derr == nil && len(dec) >= 32 && len(dec)%16 == 0 && bytes.Equal(dec[:8], []byte("Salted__"))
	if !wellFormed && err == nil {
		return viol("tamper_accepted", "Decrypt", "Decrypt returned no error for text that does not decode to Salted__+salt+whole blocks (%s)", what)
	}
	return nil
}

func (w *world) streamFault() *sim.Violation {
	p := w.c.Params
	// a correct stream, produced by the reference
	salt := w.r.Bytes(8)
	full := refCTR(w.plain, w.secret, salt)
	if p["side"] == 0 {
		// fault while encrypting
		var mid simWriter
		mid.stats = w.stats
		mid.failAt = -1
		rfail := -1
		if p["which"] == 0 {
			rfail = p["at"] % (len(w.plain) + 1)
		} else {
			mid.failAt = p["at"] % (len(w.plain) + 16)
		}
		rd := w.reader(w.plain, p["rpol"], rfail, p["fdata"] == 1)
		err := w.encStream(&mid, rd)
		w.dg.Add(err != nil, mid.buf.Len())
		fired := w.stats["reader_error"] > 0 || w.stats["writer_error"] > 0
		if fired && err == nil {
			return viol("fault_swallowed", "EncryptStreamTo", "EncryptStreamTo returned nil although its %s failed", []string{"reader", "writer"}[p["which"]])
		}
		if !fired && err != nil {
			return viol("roundtrip", "EncryptStreamTo", "EncryptStreamTo failed although no fault fired: %v", err)
		}
		got := mid.buf.Bytes()
		s := append([]byte{}, scrand.Trace...)
		if len(s) == 8 {
			want := refCTR(w.plain, w.secret, s)
			if len(got) > len(want) || !bytes.Equal(got, want[:len(got)]) {
				return viol("fault_wrong_data", "EncryptStreamTo", "after a %s error the %d bytes written are not a prefix of the correct stream", []string{"reader", "writer"}[p["which"]], len(got))
			}
		}
		return nil
	}
	// fault while decrypting
	var dst simWriter
	dst.stats = w.stats
	dst.failAt = -1
	rfail := -1
	if p["which"] == 0 {
		rfail = p["at"] % (len(full) + 1)
	} else {
		dst.failAt = p["at"] % (len(w.plain) + 1)
		if len(w.plain) == 0 {
			// nothing will ever be written: no writer fault can fire; use a reader fault
			rfail = p["at"] % (len(full) + 1)
			dst.failAt = -1
		}
	}
	rd := w.reader(full, p["rpol2"], rfail, p["fdata"] == 1)
	err := w.decStream(&dst, rd)
	got := dst.buf.Bytes()
	w.dg.Add(err != nil, len(got))
	fired := w.stats["reader_error"] > 0 || w.stats["writer_error"] > 0
	if fired && err == nil {
		return viol("fault_swallowed", "DecryptStreamTo", "DecryptStreamTo returned nil although a peer failed (reader fail at %d, writer fail at %d)", rfail, dst.failAt)
	}
	if !fired && err != nil {
		return viol("roundtrip", "DecryptStreamTo", "DecryptStreamTo failed although no fault fired: %v", err)
	}
	if len(got) > len(w.plain) || !bytes.Equal(got, w.plain[:len(got)]) {
		return viol("fault_wrong_data", "DecryptStreamTo", "after a peer error the %d bytes written are not a prefix of the plaintext", len(got))
	}
	if !fired && !bytes.Equal(got, w.plain) {
		return viol("roundtrip", "DecryptStreamTo", "no fault fired but the output differs from the plaintext")
	}
	return nil
}

func (w *world) garbage() *sim.Violation {
	p := w.c.Params
	n := p["glen"]
	var g []byte
	switch p["gkind"] {
	case 0: // random bytes
		g = w.r.Bytes(n)
	case 1: // magic + random
		g = append([]byte("Salted__"), w.r.Bytes(n)...)
	case 2: // valid text encoding of random bytes
		g = w.r.Bytes(n)
	case 3: // valid text encoding of magic + random
		g = append([]byte("Salted__"), w.r.Bytes(n)...)
	default: // a real envelope, truncated
		raw := refGCM(w.plain, w.secret, w.aad, w.r.Bytes(8))
		if w.r.Bool() {
			raw = refCBC(w.plain, w.secret, w.r.Bytes(8))
		}
		g = raw[:n%len(raw)] // strictly truncated
	}
	w.stats["garbage_input"]++
	textual := p["gkind"] >= 2
	var err error
	var pt []byte
	name := ""
	switch p["api"] {
	case 0:
		name = "Decrypt"
		in := g
		if textual {
			in = []byte(base64.StdEncoding.EncodeToString(g))
		}
		pt, err = w.decrypt(in)
		dec, derr := base64.StdEncoding.DecodeString(string(in))
		wf := derr == nil && len(dec) >= 32 && len(dec)%16 == 0 && bytes.Equal(dec[:8], []byte("Salted__"))
		if !wf && err == nil {
			return viol("tamper_accepted", name, "Decrypt returned no error for input that is not a well-formed envelope (%d bytes)", len(in))
		}
	case 1:
		name = "GCMDecrypt"
		in := g
		if textual {
			in = []byte(hex.EncodeToString(g))
		}
		pt, err = w.gcmDecrypt(in, w.secret, w.aad)
		if err == nil {
			return viol("tamper_accepted", name, "GCMDecrypt accepted garbage (%d bytes)", len(in))
		}
	case 2:
		name = "DecryptStreamTo"
		var dst simWriter
		dst.failAt, dst.stats = -1, w.stats
		err = w.decStream(&dst, w.reader(g, p["rpol2"], -1, false))
		if (len(g) < 16 || !bytes.Equal(g[:8], []byte("Salted__"))) && err == nil {
			return viol("tamper_accepted", name, "DecryptStreamTo returned no error for a stream without a complete Salted__ header (%d bytes)", len(g))
		}
	case 3:
		name = "SaltBySecretCBCDecrypt"
		pt, err = cryptz.SaltBySecretCBCDecrypt(append([]byte{}, g...), w.secret, p["glen"]%2 == 0)
		wf := len(g) >= 32 && len(g)%16 == 0 && bytes.Equal(g[:8], []byte("Salted__"))
		if !wf && err == nil {
			return viol("tamper_accepted", name, "no error for input that is not a well-formed envelope (%d bytes)", len(g))
		}
	default:
		name = "SaltBySecretGCMDecrypt"
		pt, err = cryptz.SaltBySecretGCMDecrypt(append([]byte{}, g...), w.secret, w.aad, p["glen"]%2 == 0)
		if err == nil {
			return viol("tamper_accepted", name, "accepted garbage (%d bytes)", len(g))
		}
	}
	w.dg.Add(name, err != nil, len(pt))
	return nil
}

// extra: systematic enumeration of stream fault positions (once per check, worker 0): for a few
// plaintext lengths around the block/header sizes, every reader policy, both sides, both peers,
// EVERY byte position k at which the peer can fail, with and without data delivered together
// with the error.  This is the enumerated part of the fault_enumeration claim; everything else
// samples positions.
func extra(out *sim.WorkerOut) []*sim.Case {
	var bad []*sim.Case
	seen := map[string]bool{}
	n := 0
	for _, plen := range []int{0, 1, 15, 16, 17, 33} {
		for pol := 0; pol < 7; pol++ {
			for side := 0; side < 2; side++ {
				for which := 0; which < 2; which++ {
					for fdata := 0; fdata < 2; fdata++ {
						limit := plen + 1
						if side == 0 && which == 1 {
							limit = plen + 16
						}
						if side == 1 && which == 0 {
							limit = plen + 17
						}
						for at := 0; at < limit; at++ {
							c := &sim.Case{Property: "C09", Engine: "C", EnvSeed: uint64(1000 + plen*131 + pol*17 + at),
								Params: map[string]int{"scen": 6, "plen": plen, "slen": 9, "alen": 0, "variant": (pol + at) % 4,
									"rpol": pol, "rpol2": pol, "rfail": -1, "wfail": -1, "side": side, "which": which, "at": at, "fdata": fdata}}
							v, _ := exec(c, out)
							n++
							if v != nil && !seen[v.Key()] {
								seen[v.Key()] = true
								c.Violation = v
								bad = append(bad, c)
							}
						}
					}
				}
			}
		}
	}
	out.Probes["stream_fault_positions_enumerated"] += n
	bad = append(bad, opensslInterop(out)...)
	return bad
}

// opensslInterop: when an `openssl` binary is present (it is in this sandbox, it is not required),
// a handful of messages go both ways through the real `openssl enc -aes-256-cbc -md md5`:
// what cryptz.Encrypt produced must be decrypted by openssl, what openssl produced (base64
// wrapped at 64 columns, its own random salt) must be decrypted by cryptz.Decrypt, and the
// harness's reference derivation must reproduce openssl's bytes for openssl's salt.
func opensslInterop(out *sim.WorkerOut) []*sim.Case {
	bin, err := osexec.LookPath("openssl")
	if err != nil {
		out.Notes = append(out.Notes, "openssl binary not found: interoperability is decided against the Go standard library reference only")
		return nil
	}
	var bad []*sim.Case
	fail := func(v *sim.Violation, plen int, secret string) {
		bad = append(bad, &sim.Case{Property: "C09", Engine: "C", Params: map[string]int{"scen": 0, "plen": plen, "slen": len(secret), "openssl": 1, "extra_table": 1}, Violation: v})
	}
	run := func(in []byte, args ...string) ([]byte, error) {
		cmd := osexec.Command(bin, args...)
		cmd.Stdin = bytes.NewReader(in)
		var o bytes.Buffer
		cmd.Stdout = &o
		err := cmd.Run()
		return o.Bytes(), err
	}
	r := sim.NewRng(20240102)
	n := 0
	for _, plen := range []int{0, 1, 15, 16, 17, 100, 1000} {
		for _, secret := range []string{"s3cret", "a much longer pass phrase with spaces 0123456789"} {
			plain := r.Bytes(plen)
			scrand.Reset()
			ct, err := cryptz.Encrypt(plain, secret)
			if err != nil {
				continue
			}
			got, err := run(append(append([]byte{}, ct...), 10), "enc", "-d", "-aes-256-cbc", "-md", "md5", "-a", "-A", "-pass", "pass:"+secret)
			if err != nil && len(got) == 0 && plen > 0 {
				// could not run the tool at all (old build, FIPS, ...): not a verdict
				out.Notes = append(out.Notes, "openssl enc -d failed to run: "+err.Error())
				return bad
			}
			n++
			if !bytes.Equal(got, plain) {
				fail(viol("wire_format", "Encrypt", "`openssl enc -d -aes-256-cbc -md md5 -a -A` does not recover the plaintext (%d bytes) from cryptz.Encrypt output", plen), plen, secret)
			}
			theirs, err := run(plain, "enc", "-aes-256-cbc", "-md", "md5", "-a", "-pass", "pass:"+secret)
			if err != nil || len(theirs) == 0 {
				continue
			}
			n++
			pt, derr := cryptz.Decrypt(theirs, secret)
			if derr != nil || !bytes.Equal(pt, plain) {
				fail(viol("wire_format", "Decrypt", "cryptz.Decrypt does not recover the plaintext (%d bytes) from `openssl enc -aes-256-cbc -md md5 -a` output: %v", plen, derr), plen, secret)
			}
			raw, berr := base64.StdEncoding.DecodeString(strings.ReplaceAll(string(theirs), "\n", ""))
			if berr == nil && len(raw) >= 16 && !bytes.Equal(refCBC(plain, []byte(secret), raw[8:16]), raw) {
				out.Notes = append(out.Notes, "REFERENCE MISMATCH: the harness's EVP_BytesToKey/AES reference does not reproduce openssl's output")
				fail(viol("reference_mismatch", "Encrypt", "harness reference differs from openssl for a %d-byte plaintext", plen), plen, secret)
			}
		}
	}
	out.Probes["openssl_binary_interop_messages"] += n
	return bad
}

func main() {
	engc.Main(&engc.Spec{ID: "C09", Gen: gen, Exec: exec, Extra: extra})
}
