// C03 — RoaringBitmap behaves as a set of uint32 with complete ascending enumeration (Engine C).
//
// Simulated: the PRNG (and the clock seeding it) of the skip list of buckets embedded in the
// bitmap — the bucket order every enumeration walks is the level-0 chain of a list whose towers
// are random.  Oracle: map[uint32] + sorted slice.
package main

import (
	"fmt"
	"math"
	"os"
	"sort"
	"time"

	"harness/engc"
	"harness/sim"

	"github.com/welllog/golib/setz"
	"github.com/welllog/golib/zzsim/smrand"
	"github.com/welllog/golib/zzsim/stime"
)

var fixedHighs = []int{0, 1, 2, 0x7FFF, 0xFFFF}

func gen(r *sim.Rng, tier string) *sim.Case {
	c := &sim.Case{Params: map[string]int{}}
	c.Params["dist"] = r.Pick(4, 2, 2, 2, 2, 2, 2)
	// bucket keys of this run
	nb := r.Range(1, 5)
	if r.Pct(5) {
		nb = r.Range(6, 14)
	}
	var highs []int
	for i := 0; i < nb; i++ {
		if r.Pct(60) {
			highs = append(highs, fixedHighs[r.N(len(fixedHighs))])
		} else {
			highs = append(highs, r.N(1<<16))
		}
	}
	heavy := r.Pct(25) // runs with macro operations crossing the 4096 threshold
	maxOps := 40
	if tier == "thorough" {
		maxOps = 120
	}
	n := r.Range(2, maxOps)
	lowDom := []int{8, 64, 1 << 16}[r.N(3)]
	edges := []int{0, 1, 63, 64, 65, 127, 128, 4095, 4096, 4097, 65534, 65535}
	low := func() int {
		if r.Pct(25) {
			return edges[r.N(len(edges))]
		}
		return r.N(lowDom)
	}
	for i := 0; i < n; i++ {
		h := highs[r.N(len(highs))]
		switch k := r.Pick(6, 4, 3, 1, 3); k {
		case 0:
			c.Ops = append(c.Ops, sim.Op{Op: "Add", K: h, V: low()})
		case 1:
			c.Ops = append(c.Ops, sim.Op{Op: "Remove", K: h, V: low()})
		case 2:
			c.Ops = append(c.Ops, sim.Op{Op: "Contains", K: h, V: low()})
		case 3:
			c.Ops = append(c.Ops, sim.Op{Op: "Len"})
		case 4:
			e := sim.Op{Op: "Enum", S: []string{"Iter", "Range", "All"}[r.N(3)], D: enumStop(r)}
			if e.D != 0 && r.Pct(12) {
				e.V = 1 // the D-th callback panics instead of stopping
			}
			c.Ops = append(c.Ops, e)
		}
		if heavy && r.Pct(12) {
			cnt := []int{4095, 4096, 4097, 4098, 5000, 300}[r.N(6)]
			if r.Pct(25) {
				cnt = r.Range(1, 6000)
			}
			if r.Pct(4) {
				cnt = r.Range(20000, 45000) // a really dense bucket
			}
			step := []int{1, 1, 2, 3, 15}[r.N(5)]
			if r.Pct(2) {
				cnt, step = 1<<16, 1 // the whole bucket: all 65536 values of one key
			}
			if step*cnt > 1<<16 {
				step = 1
			}
			name := "AddRun"
			if r.Pct(40) {
				name = "RemoveRun"
			}
			st := r.N(1<<16 - step*cnt + 1)
			switch r.N(5) {
			case 0:
				st = 0
			case 1:
				st = 1<<16 - 1 - step*(cnt-1) // the run ends exactly at 65535
			}
			c.Ops = append(c.Ops, sim.Op{Op: name, K: h, V: st, D: cnt, Ks: []int{step, r.N(3)}})
		}
	}
	if heavy && r.Pct(30) {
		// the life of a dense bucket: filled beyond the threshold, drained back to a level at or
		// below it (2049, 2048, 2047, ..., 1 members left), while a second bucket goes through
		// a conversion of its own; then the first one is looked at again
		h1 := highs[r.N(len(highs))]
		h2 := h1 ^ (1 + r.N(3))
		c1 := r.Range(4097, 5200)
		keep := []int{1, 7, 1000, 2047, 2048, 2049, 4095, 4096}[r.N(8)]
		st := r.N(1<<16 - c1)
		ord := r.N(3)
		life := []sim.Op{
			{Op: "AddRun", K: h1, V: st, D: c1, Ks: []int{1, r.N(3)}},
			{Op: "RemoveRun", K: h1, V: st + keep*r.N(2), D: c1 - keep, Ks: []int{1, ord}},
			{Op: "Enum", S: []string{"Iter", "Range", "All"}[r.N(3)], D: enumStop(r)},
			{Op: "AddRun", K: h2, V: r.N(1 << 15), D: r.Range(4097, 4300), Ks: []int{1, r.N(3)}},
		}
		if r.Bool() {
			life = append(life, sim.Op{Op: "RemoveRun", K: h2, V: life[3].V, D: life[3].D - []int{1, 2048, 2049}[r.N(3)], Ks: []int{1, r.N(3)}})
		}
		life = append(life, sim.Op{Op: "Contains", K: h1, V: st + c1 - 1}, sim.Op{Op: "Contains", K: h1, V: st}, sim.Op{Op: "Add", K: h1, V: low()})
		at := r.N(len(c.Ops) + 1)
		c.Ops = append(c.Ops[:at:at], append(life, c.Ops[at:]...)...)
	}
	if heavy && r.Pct(20) {
		// the life of a sparse bucket: grown to some hundreds or thousands of members, drained
		// to a fraction of that (an implementation may give memory back), refilled in ascending
		// order to the threshold and across it, then given a small value again
		h1 := highs[r.N(len(highs))]
		n1 := []int{300, 896, 897, 1024, 1500, 2048, 3000, 4000, 4096}[r.N(9)]
		keep := []int{1, n1 / 8, n1/4 - 1, n1 / 4, n1/4 + 1, n1 / 2}[r.N(6)]
		if keep < 1 {
			keep = 1
		}
		st := 100 + r.N(1000)
		fillTo := []int{4096, 4096, 4097, 4098, 4200}[r.N(5)]
		life := []sim.Op{
			{Op: "AddRun", K: h1, V: st, D: n1, Ks: []int{1, r.N(3)}},
			{Op: "RemoveRun", K: h1, V: st + keep, D: n1 - keep, Ks: []int{1, r.N(3)}}, // the smallest `keep` stay
			{Op: "AddRun", K: h1, V: st + keep, D: fillTo - keep, Ks: []int{1, 0}},     // ascending, each a new maximum
			{Op: "Add", K: h1, V: st + fillTo + r.N(50)},                               // one more maximum
			{Op: "Add", K: h1, V: r.N(st)},                                             // and a value below all
			{Op: "Contains", K: h1, V: st + fillTo - 1},
			{Op: "Contains", K: h1, V: st + fillTo - 2},
			{Op: "Enum", S: []string{"Iter", "Range", "All"}[r.N(3)]},
		}
		at := r.N(len(c.Ops) + 1)
		c.Ops = append(c.Ops[:at:at], append(life, c.Ops[at:]...)...)
		c.Params["sparse_life"] = 1
	}
	// every run ends with all three enumerations, complete
	for _, s := range []string{"Iter", "Range", "All"} {
		c.Ops = append(c.Ops, sim.Op{Op: "Enum", S: s})
	}
	if r.Pct(25) {
		c.Ops = append(c.Ops, sim.Op{Op: "Enum", S: "IterPair"})
	}
	if r.Pct(25) {
		c.Ops = append(c.Ops, sim.Op{Op: "Enum", S: "Nested", D: r.N(16)})
	}
	if r.Pct(20) {
		c.Params["twin"] = 1 // a second bitmap is used alternately
	}
	c.EnvSeed = r.U64() >> 12
	return c
}

func enumStop(r *sim.Rng) int {
	if r.Pct(10) {
		return r.Range(100, 30000) // stop deep inside a big set
	}
	return r.Pick(4, 1, 1) * r.Range(1, 5)
}

func towerWords(dist int, seed uint64) func() uint64 {
	r := sim.NewRng(seed)
	n := 0
	half := func(bl int) uint64 {
		if bl <= 0 {
			return 0
		}
		v := uint64(1) << (bl - 1)
		if bl > 1 {
			v |= r.U64() & (v - 1)
		}
		return v
	}
	return func() uint64 {
		n++
		var bl int
		switch dist {
		case 0:
			return r.U64()
		case 1:
			bl = r.N(4)
		case 2:
			bl = 32
		case 3:
			if n%2 == 0 {
				bl = r.N(3)
			} else {
				bl = 32 - r.N(2)
			}
		case 4:
			bl = r.N(33)
		case 6:
			bl = n % 33
		default:
			bl = 32 - (n % 33)
		}
		return half(bl)<<32 | half(bl)
	}
}

const name = "setz.(*RoaringBitmap)"

// twinMask moves a value to the neighbouring bucket and to other low bits.
const twinMask = 0x00010005

func exec(c *sim.Case, out *sim.WorkerOut) (*sim.Violation, bool) {
	smrand.Word = towerWords(c.P("dist"), c.EnvSeed)
	smrand.Words = 0
	stime.Clock = int64(c.EnvSeed % 1000000007)
	dg := engc.NewDigest()
	var rb setz.RoaringBitmap // usable from its zero value
	// the twin: a second bitmap that receives the image of every Add/Remove under x -> x^twinMask,
	// alternately with the first one.  Two bitmaps share nothing, so the twin must hold exactly the
	// image of the first (package-level pools, caches or scratch buffers would couple them).
	var tw setz.RoaringBitmap
	twin := c.P("twin") == 1
	md := map[uint32]struct{}{}
	perBucket := map[uint32]int{}
	emptied := map[uint32]bool{}
	probes := map[string]int{}
	mism := func(op string, format string, a ...any) *sim.Violation {
		return &sim.Violation{Class: "model_mismatch:" + op, Site: name + "." + op, Detail: fmt.Sprintf(format, a...)}
	}
	add := func(idx int, x uint32) *sim.Violation {
		got := rb.Add(x)
		_, present := md[x]
		if got == present {
			return mism("Add", "op %d Add(%#x) = %v, already member = %v", idx, x, got, present)
		}
		if twin {
			if g2 := tw.Add(x ^ twinMask); g2 != got {
				return mism("Add", "op %d, twin bitmap used alternately with the first: Add(%#x) = %v, already member = %v", idx, x^twinMask, g2, present)
			}
		}
		if !present {
			md[x] = struct{}{}
			b := x >> 16
			if perBucket[b] == 0 && emptied[b] {
				probes["bucket_repopulated_after_emptying"]++
			}
			perBucket[b]++
			if perBucket[b] == 4097 {
				probes["bucket_converted_at_4097th_value"]++
			}
		}
		return nil
	}
	remove := func(idx int, x uint32) *sim.Violation {
		got := rb.Remove(x)
		_, present := md[x]
		if got != present {
			return mism("Remove", "op %d Remove(%#x) = %v, member = %v", idx, x, got, present)
		}
		if twin {
			if g2 := tw.Remove(x ^ twinMask); g2 != got {
				return mism("Remove", "op %d, twin bitmap used alternately with the first: Remove(%#x) = %v, member = %v", idx, x^twinMask, g2, present)
			}
		}
		if present {
			delete(md, x)
			b := x >> 16
			if perBucket[b] > 4096 {
				probes["removal_from_dense_bucket"]++
			}
			perBucket[b]--
			if perBucket[b] == 0 {
				emptied[b] = true
				probes["bucket_emptied"]++
			}
		}
		return nil
	}
	for idx, op := range c.Ops {
		var v *sim.Violation
		pv := engc.Call(name+"."+siteOf(op), func() {
			x := uint32(op.K)<<16 | uint32(op.V&0xFFFF)
			switch op.Op {
			case "Add":
				v = add(idx, x)
			case "Remove":
				v = remove(idx, x)
			case "Contains":
				got := rb.Contains(x)
				_, present := md[x]
				dg.Add("c", got)
				if got != present {
					v = mism("Contains", "op %d Contains(%#x) = %v, member = %v", idx, x, got, present)
				}
			case "Len":
				if n := rb.Len(); n != len(md) {
					v = mism("Len", "op %d Len() = %d, cardinality %d", idx, n, len(md))
				}
			case "AddRun", "RemoveRun":
				step, order := op.Ks[0], op.Ks[1]
				lows := make([]int, op.D)
				for i := range lows {
					lows[i] = op.V + i*step
				}
				switch order {
				case 1:
					for i, j := 0, len(lows)-1; i < j; i, j = i+1, j-1 {
						lows[i], lows[j] = lows[j], lows[i]
					}
				case 2:
					pr := sim.NewRng(c.EnvSeed ^ uint64(idx)*0x9E37)
					for i := len(lows) - 1; i > 0; i-- {
						j := pr.N(i + 1)
						lows[i], lows[j] = lows[j], lows[i]
					}
				}
				for _, l := range lows {
					y := uint32(op.K)<<16 | uint32(l&0xFFFF)
					if op.Op == "AddRun" {
						v = add(idx, y)
					} else {
						v = remove(idx, y)
					}
					if v != nil {
						return
					}
				}
				if n := rb.Len(); n != len(md) {
					v = mism("Len", "op %d after %s: Len() = %d, cardinality %d", idx, op.Op, n, len(md))
				}
			case "Enum":
				if op.S == "Nested" {
					// a read-only enumeration started from inside the callback (or loop body) of
					// another one over the same bitmap
					v = nestedEnum(&rb, md, idx, op.D)
					probes["enumeration_nested_in_an_enumeration"]++
					return
				}
				if op.S == "IterPair" {
					// two iterators alive at once, advanced alternately (a merge join): over the
					// twin and the first bitmap if there is a twin, else both over the first
					other, oimg := &rb, md
					if twin {
						oimg = make(map[uint32]struct{}, len(md))
						for x := range md {
							oimg[x^twinMask] = struct{}{}
						}
						other = &tw
					}
					v = iterPair(&rb, other, md, oimg, idx)
					probes["two_iterators_advanced_alternately"]++
					return
				}
				v = enum(&rb, md, op, idx, probes)
				if v == nil && twin {
					img := make(map[uint32]struct{}, len(md))
					for x := range md {
						img[x^twinMask] = struct{}{}
					}
					if n := tw.Len(); n != len(img) {
						v = mism("Len", "op %d, twin bitmap: Len() = %d, cardinality %d", idx, n, len(img))
					} else if v = enum(&tw, img, op, idx, map[string]int{}); v != nil {
						v.Detail += " [twin bitmap used alternately with the first]"
					}
				}
			}
		})
		if pv != nil {
			return pv, true
		}
		if v != nil {
			return v, true
		}
		dg.Add(op.Op, len(md))
	}
	for k, n := range probes {
		out.Probes[k] += n
	}
	if twin {
		out.Probes["twin_instance_used_alternately"]++
	}
	if c.P("sparse_life") == 1 {
		out.Probes["sparse_bucket_drained_to_a_fraction_and_refilled_across_the_threshold"]++
	}
	out.Faults["tower_word_drawn"] += smrand.Words
	if c.P("dist") != 0 {
		out.Faults["adversarial_tower_distribution"]++
	}
	c.LogHash = dg.Hex()
	nb := 0
	for _, n := range perBucket {
		if n > 0 {
			nb++
		}
	}
	return nil, smrand.Words >= 2 && (c.P("dist") != 0 || len(probes) > 0)
}

func sortedSet(md map[uint32]struct{}) []uint32 {
	want := make([]uint32, 0, len(md))
	for x := range md {
		want = append(want, x)
	}
	sort.Slice(want, func(a, b int) bool { return want[a] < want[b] })
	return want
}

func iterPair(a, b *setz.RoaringBitmap, ma, mb map[uint32]struct{}, idx int) *sim.Violation {
	wa, wb := sortedSet(ma), sortedSet(mb)
	ia, ib := a.Iter(), b.Iter()
	var ga, gb []uint32
	da, db := false, false
	for step := 0; !(da && db) && step < 2*(len(wa)+len(wb))+16; step++ {
		// a takes two steps for every step of b, so that the cursors sit in different buckets
		if !da && step%3 != 2 {
			if ia.Next() {
				ga = append(ga, ia.Value())
			} else {
				da = true
			}
		} else if !db {
			if ib.Next() {
				gb = append(gb, ib.Value())
			} else {
				db = true
			}
		} else if !da {
			if ia.Next() {
				ga = append(ga, ia.Value())
			} else {
				da = true
			}
		}
	}
	for k, pr := range [][2][]uint32{{ga, wa}, {gb, wb}} {
		got, want := pr[0], pr[1]
		if len(got) != len(want) {
			return &sim.Violation{Class: "enumeration_incomplete:Iter", Site: name + ".Iter", Detail: fmt.Sprintf("op %d, two iterators advanced alternately: iterator %d produced %d values, the set has %d members", idx, k+1, len(got), len(want))}
		}
		for i := range got {
			if got[i] != want[i] {
				return &sim.Violation{Class: "model_mismatch:Iter", Site: name + ".Iter", Detail: fmt.Sprintf("op %d, two iterators advanced alternately: iterator %d produced %#x at position %d, expected %#x", idx, k+1, got[i], i, want[i])}
			}
		}
	}
	return nil
}

func nestedEnum(rb *setz.RoaringBitmap, md map[uint32]struct{}, idx, variant int) *sim.Violation {
	want := sortedSet(md)
	if len(want) == 0 {
		return nil
	}
	at := []int{0, len(want) / 2, len(want) - 1, 4100 % len(want)}[variant%4]
	var outer, inner []uint32
	collectInner := func() {
		inner = inner[:0]
		if variant&4 == 0 {
			rb.Range(func(x uint32) bool { inner = append(inner, x); return len(inner) <= len(want)+8 })
		} else {
			for x := range rb.All() {
				inner = append(inner, x)
				if len(inner) > len(want)+8 {
					break
				}
			}
		}
	}
	n := 0
	body := func(x uint32) bool {
		outer = append(outer, x)
		if n == at {
			collectInner()
		}
		n++
		return len(outer) <= len(want)+8
	}
	name2 := "Range"
	if variant&8 == 0 {
		rb.Range(body)
	} else {
		name2 = "All"
		for x := range rb.All() {
			if !body(x) {
				break
			}
		}
	}
	for k, pr := range [][]uint32{outer, inner} {
		which := []string{"the outer enumeration", "the enumeration nested in it"}[k]
		if len(pr) != len(want) {
			return &sim.Violation{Class: "enumeration_incomplete:" + name2, Site: name + "." + name2, Detail: fmt.Sprintf("op %d, %s nested at element %d of another enumeration: %s produced %d values, the set has %d members", idx, name2, at, which, len(pr), len(want))}
		}
		for i := range pr {
			if pr[i] != want[i] {
				return &sim.Violation{Class: "model_mismatch:" + name2, Site: name + "." + name2, Detail: fmt.Sprintf("op %d, nested read-only enumerations: %s produced %#x at position %d, expected %#x", idx, which, pr[i], i, want[i])}
			}
		}
	}
	return nil
}

func siteOf(op sim.Op) string {
	if op.Op == "Enum" && op.S == "Nested" {
		return "Range"
	}
	if op.Op == "Enum" && op.S == "IterPair" {
		return "Iter"
	}
	switch op.Op {
	case "AddRun":
		return "Add"
	case "RemoveRun":
		return "Remove"
	case "Enum":
		return op.S
	}
	return op.Op
}

type cbPanic struct{}

// guard runs an enumeration whose callback may panic the way a caller that recovers would:
// afterwards the bitmap must be as usable as after an early stop.
func guard(f func()) {
	defer func() {
		if r := recover(); r != nil {
			if _, mine := r.(cbPanic); !mine {
				panic(r)
			}
		}
	}()
	f()
}

func enum(rb *setz.RoaringBitmap, md map[uint32]struct{}, op sim.Op, idx int, probes map[string]int) *sim.Violation {
	want := make([]uint32, 0, len(md))
	buckets := map[uint32]bool{}
	for x := range md {
		want = append(want, x)
		buckets[x>>16] = true
	}
	sort.Slice(want, func(a, b int) bool { return want[a] < want[b] })
	if op.D != 0 && op.D < len(want) {
		want = want[:op.D]
	}
	var got []uint32
	limit := len(md) + 8
	switch op.S {
	case "Iter":
		it := rb.Iter()
		for it.Next() {
			got = append(got, it.Value())
			if (op.D != 0 && len(got) >= op.D) || len(got) > limit {
				break
			}
		}
	case "Range":
		guard(func() {
			rb.Range(func(x uint32) bool {
				got = append(got, x)
				if op.V == 1 && op.D != 0 && len(got) >= op.D {
					panic(cbPanic{}) // the callback fails; the caller of the enumeration recovers
				}
				return !((op.D != 0 && len(got) >= op.D) || len(got) > limit)
			})
		})
	case "All":
		// obtained once, ranged twice (the second time completely)
		seq := rb.All()
		guard(func() {
			for x := range seq {
				got = append(got, x)
				if op.V == 1 && op.D != 0 && len(got) >= op.D {
					panic(cbPanic{})
				}
				if (op.D != 0 && len(got) >= op.D) || len(got) > limit {
					break
				}
			}
		})
		n2, ok2 := 0, true
		for x := range seq {
			if n2 >= len(md) || n2 > limit {
				ok2 = false
				break
			}
			if _, member := md[x]; !member {
				ok2 = false
				break
			}
			n2++
		}
		if !ok2 || n2 != len(md) {
			return &sim.Violation{Class: "enumeration_incomplete:All", Site: name + ".All",
				Detail: fmt.Sprintf("op %d: a second range over the same All() sequence produced %d values, the set has %d", idx, n2, len(md))}
		}
	}
	if op.D == 0 && len(buckets) >= 3 {
		probes["enumerated_3+_buckets"]++
	}
	if op.D == 0 && len(buckets) >= 2 {
		probes["enumerated_2+_buckets"]++
	}
	if len(got) != len(want) {
		return &sim.Violation{Class: "enumeration_incomplete:" + op.S, Site: name + "." + op.S,
			Detail: fmt.Sprintf("op %d %s produced %d values, the set has %d (stop after %d); first values got %v want %v", idx, op.S, len(got), len(want), op.D, head(got), head(want))}
	}
	for i := range want {
		if got[i] != want[i] {
			return &sim.Violation{Class: "model_mismatch:" + op.S, Site: name + "." + op.S,
				Detail: fmt.Sprintf("op %d %s value %d is %#x, ascending order of the set has %#x", idx, op.S, i, got[i], want[i])}
		}
	}
	return nil
}

func head(a []uint32) []uint32 {
	if len(a) > 6 {
		return a[:6]
	}
	return a
}

// fullSet (thorough tier, next to the exploration): the one state no generated history reaches -
// every uint32 a member, all 65536 buckets dense and full (2^32 calls of Add, half a gigabyte) -
// and a few steps from there.
func fullSet(path string) {
	type result struct {
		Values      uint64  `json:"values_added"`
		Failure     string  `json:"failure,omitempty"`
		WallSeconds float64 `json:"wall_s"`
	}
	start := time.Now()
	var res result
	smrand.Word = towerWords(0, 20260929)
	stime.Clock = 1
	fail := func(format string, a ...any) {
		if res.Failure == "" {
			res.Failure = fmt.Sprintf(format, a...)
		}
	}
	var rb setz.RoaringBitmap
	for v := uint64(0); v < 1<<32 && res.Failure == ""; v++ {
		if !rb.Add(uint32(v)) {
			fail("full set: Add(%d) on a bitmap that does not hold it returned false", v)
		}
		res.Values++
	}
	if res.Failure == "" {
		if n := uint64(rb.Len()); n != 1<<32 {
			fail("full set: all 2^32 values are members: Len() = %d", rb.Len())
		}
		for _, v := range []uint32{0, 1, 4095, 4096, 65535, 65536, 1 << 31, math.MaxUint32 - 1, math.MaxUint32} {
			if !rb.Contains(v) {
				fail("full set: Contains(%d) = false", v)
			}
			if rb.Add(v) {
				fail("full set: Add(%d) of a member returned true", v)
			}
		}
		want := uint32(0)
		rb.Range(func(v uint32) bool {
			if v != want {
				fail("full set: Range delivered %d where %d was due", v, want)
				return false
			}
			want++
			return want < 200000
		})
		it := rb.Iter()
		for i := uint32(0); i < 70000 && res.Failure == ""; i++ {
			if !it.Next() || it.Value() != i {
				fail("full set: Iter delivered %d where %d was due", it.Value(), i)
			}
		}
		if !rb.Remove(math.MaxUint32) || rb.Contains(math.MaxUint32) {
			fail("full set: Remove(MaxUint32) did not remove it")
		}
		if n := uint64(rb.Len()); res.Failure == "" && n != 1<<32-1 {
			fail("full set: one value removed from all 2^32: Len() = %d", rb.Len())
		}
	}
	res.WallSeconds = time.Since(start).Seconds()
	sim.WriteJSON(path, res)
}

func main() {
	if p := os.Getenv("VERIF_C01_WRAP"); p != "" {
		fullSet(p)
		return
	}
	engc.Main(&engc.Spec{ID: "C03", Gen: gen, Exec: exec})
}
