// C01 — SyncRing is a linearizable bounded MPMC FIFO queue (Engine A).
package main

import (
	"fmt"
	"os"
	"reflect"
	"strconv"
	"strings"
	"time"
	"unsafe"

	"harness/enga"
	"harness/sim"

	"github.com/anishathalye/porcupine"
	"github.com/welllog/golib/ringz"
	"github.com/welllog/golib/zzsim/core"
)

// ringAPI is the ring seen through int values; the element type of the real ring varies per
// case (elem): a change that is wrong only for some instantiation (a pointer-free fast path,
// a size-dependent layout, a torn multi-word value) must not hide behind SyncRing[int].
type ringAPI interface {
	Push(int) bool
	Pop() (int, bool)
	PushWait(int, time.Duration) bool
	PopWait(time.Duration) (int, bool)
	Len() int
	IsEmpty() bool
	IsFull() bool
	Cap() int
}

type ringOf[T any] struct {
	r   ringz.SyncRing[T]
	enc func(int) T
	dec func(T) int
}

func (a *ringOf[T]) Push(v int) bool { return a.r.Push(a.enc(v)) }
func (a *ringOf[T]) Pop() (int, bool) {
	v, ok := a.r.Pop()
	if !ok {
		return 0, false
	}
	return a.dec(v), true
}
func (a *ringOf[T]) PushWait(v int, d time.Duration) bool { return a.r.PushWait(a.enc(v), d) }
func (a *ringOf[T]) PopWait(d time.Duration) (int, bool) {
	v, ok := a.r.PopWait(d)
	if !ok {
		return 0, false
	}
	return a.dec(v), true
}
func (a *ringOf[T]) Len() int      { return a.r.Len() }
func (a *ringOf[T]) IsEmpty() bool { return a.r.IsEmpty() }
func (a *ringOf[T]) IsFull() bool  { return a.r.IsFull() }
func (a *ringOf[T]) Cap() int      { return a.r.Cap() }

// triple is a three-word value whose words determine each other: a torn or half-cleared copy
// decodes to a value nobody pushed (value_invented).
type triple struct {
	A int
	B int64
	C uint64
}

const tornBase = 0x7ead0000

func newRing(elem, req int) (ringAPI, *ringz.SyncRing[int]) {
	switch elem {
	case 1:
		return &ringOf[string]{r: ringz.NewSync[string](req), enc: func(v int) string {
			if v == 0 {
				return "" // value 0 stands for the zero value of the element type: an element like any other
			}
			return "v" + strconv.Itoa(v)
		},
			dec: func(s string) int {
				if s == "" {
					return 0
				}
				n, err := strconv.Atoi(strings.TrimPrefix(s, "v"))
				if err != nil || !strings.HasPrefix(s, "v") {
					return tornBase + len(s)
				}
				return n
			}}, nil
	case 2:
		return &ringOf[triple]{r: ringz.NewSync[triple](req), enc: func(v int) triple {
			if v == 0 {
				return triple{}
			}
			return triple{v, ^int64(v), uint64(v) * 3}
		},
			dec: func(t triple) int {
				if t == (triple{}) {
					return 0
				}
				if t.B != ^int64(t.A) || t.C != uint64(t.A)*3 {
					return tornBase + 1000 + t.A&0xff
				}
				return t.A
			}}, nil
	case 3:
		return &ringOf[*int]{r: ringz.NewSync[*int](req), enc: func(v int) *int {
			if v == 0 {
				return nil
			}
			return &v
		},
			dec: func(p *int) int {
				if p == nil {
					return 0
				}
				return *p
			}}, nil
	case 4:
		return &ringOf[any]{r: ringz.NewSync[any](req), enc: func(v int) any {
			if v == 0 {
				return nil
			}
			return v
		},
			dec: func(x any) int {
				if n, ok := x.(int); ok {
					return n
				}
				if x == nil {
					return 0
				}
				return tornBase + 3000
			}}, nil
	}
	a := &ringOf[int]{r: ringz.NewSync[int](req), enc: func(v int) int { return v }, dec: func(v int) int { return v }}
	return a, &a.r
}

type inst struct {
	r    ringAPI
	ri   *ringz.SyncRing[int] // the int ring itself (counter fast-forward), nil for other element types
	cap  int
	init []int
	// the twin: a second ring of the same element type that every thread uses alternately with
	// the first (one Push before, one Pop after each operation).  Two rings share nothing, so
	// the twin must neither lose, duplicate nor invent a value (package-level pools, caches or
	// scratch state would couple them).
	tw   ringAPI
	elem int
	twl  [16]struct{ pushed, popped []int }
	// the probe thread runs while the others are frozen in the middle of their operations: it
	// keeps its hands off the twin (a frozen twin Push would make it wait for ever)
	probe int
}

func (x *inst) Do(t int, op sim.Op) sim.Rec {
	if x.tw != nil && t < len(x.twl) && t != x.probe {
		l := &x.twl[t]
		if v := 0x100000 + t<<12 + len(l.pushed); x.tw.Push(v) {
			l.pushed = append(l.pushed, v)
		}
		defer func() {
			if v, ok := x.tw.Pop(); ok {
				l.popped = append(l.popped, v)
			}
		}()
	}
	var r sim.Rec
	switch op.Op {
	case "Push":
		r.OK = x.r.Push(op.V)
	case "Pop":
		r.V, r.OK = x.r.Pop()
	case "PushWait":
		r.OK = x.r.PushWait(op.V, time.Duration(op.D)*time.Millisecond)
	case "PopWait":
		r.V, r.OK = x.r.PopWait(time.Duration(op.D) * time.Millisecond)
	case "Len":
		r.V = x.r.Len()
		r.OK = true
	case "IsEmpty":
		r.OK = x.r.IsEmpty()
	case "IsFull":
		r.OK = x.r.IsFull()
	case "Cap":
		// every exported method may be called while others run, also the trivial ones
		r.V = x.r.Cap()
		r.OK = true
	case "Fresh":
		// a ring created while the others are in use: it shares nothing with them.  The
		// requested capacities vary (powers of two and not), like those of the main ring.
		f, _ := newRing(x.elem, []int{1, 2, 3, 5, 6, 8}[(t+op.V)%6])
		v := 0x200000 + t<<8 + op.V
		ok1 := f.Push(v)
		n1 := f.Len()
		fills := 0
		for f.Push(v + 0x10000 + fills) {
			fills++
			if fills > 16 {
				break
			}
		}
		got, ok := f.Pop()
		r.V, r.OK = got, ok1 && ok && got == v && n1 == 1 && fills == f.Cap()-1
		r.Vs = []int{v, n1, fills, f.Cap()}
	case "Drain":
		for i := 0; i < x.cap+2; i++ {
			v, ok := x.r.Pop()
			if !ok {
				break
			}
			r.Vs = append(r.Vs, v)
		}
		r.OK = true
	default:
		panic("c01: unknown op " + op.Op)
	}
	return r
}

// fastForward puts a freshly initialised ring into the state that `pairs` push/pop pairs
// produce, by writing its counters and slot sequence numbers directly.  It is validated
// against rings that really performed the pairs (ffValid); if the layout is not what it
// expects it reports false and wrap configurations are skipped (reduced coverage, never a
// violation).
func fastForward(r *ringz.SyncRing[int], pairs uint32) (ok bool) {
	defer func() {
		if recover() != nil {
			ok = false
		}
	}()
	v := reflect.ValueOf(r).Elem()
	head, tail, values := v.FieldByName("head"), v.FieldByName("tail"), v.FieldByName("values")
	if !head.IsValid() || !tail.IsValid() || !values.IsValid() || head.Kind() != reflect.Uint32 || tail.Kind() != reflect.Uint32 || values.Kind() != reflect.Slice {
		return false
	}
	n := uint32(values.Len())
	if n == 0 || n&(n-1) != 0 {
		return false
	}
	*(*uint32)(unsafe.Pointer(head.UnsafeAddr())) = pairs
	*(*uint32)(unsafe.Pointer(tail.UnsafeAddr())) = pairs
	for i := uint32(0); i < n; i++ {
		pos := values.Index(int(i)).FieldByName("pos")
		if !pos.IsValid() || pos.Kind() != reflect.Uint32 {
			return false
		}
		// the next position >= pairs that maps to slot i
		q := pairs + ((i - pairs) & (n - 1))
		*(*uint32)(unsafe.Pointer(pos.UnsafeAddr())) = q
	}
	return true
}

var ffValid = map[int]bool{}
var ffChecked = map[int]bool{}

// validateFF compares fast-forwarded rings with rings that really did k pairs, k <= 3*cap.
func validateFF(req int) bool {
	if ffChecked[req] {
		return ffValid[req]
	}
	ffChecked[req] = true
	ok := true
	func() {
		defer func() {
			if recover() != nil {
				ok = false
			}
		}()
		probe := ringz.NewSync[int](req)
		cp := probe.Cap()
		var ks []int
		for k := 0; k <= 3*cp && k <= 48; k++ {
			ks = append(ks, k)
		}
		if 3*cp > 48 {
			ks = append(ks, cp-1, cp, cp+1, 2*cp-1, 2*cp+1, 3*cp)
		}
		for _, k := range ks {
			if !ok {
				break
			}
			a := ringz.NewSync[int](req)
			for i := 0; i < k; i++ {
				if !a.Push(i + 1) {
					ok = false
				}
				if _, o := a.Pop(); !o {
					ok = false
				}
			}
			b := ringz.NewSync[int](req)
			if !fastForward(&b, uint32(k)) || !reflect.DeepEqual(a, b) {
				ok = false
			}
		}
	}()
	ffValid[req] = ok
	return ok
}

var opNames = []string{"Push", "Pop", "Len", "IsEmpty", "IsFull", "PushWait", "PopWait", "Fresh", "Cap"}

func gen(r *sim.Rng, tier string) *sim.Case {
	maxT, maxOps := 4, 4
	if tier == "thorough" {
		maxT, maxOps = 6, 8
	}
	c := &sim.Case{Params: map[string]int{}}
	req := []int{1, 2, 2, 3, 3, 4, 4, 5, 8, 9}[r.N(10)]
	switch {
	case r.Pct(2):
		req = []int{16, 100, 1 << 10, 1 << 16}[r.N(4)]
	case r.N(1000) < 3:
		// rare: a really large requested capacity (not a power of two)
		req = []int{65537, 70001, 100001, 131073, 200002, 262145}[r.N(6)]
		if r.Bool() {
			req = r.Range(65537, 300000)
		}
	case r.Pct(12):
		// "every capacity": any requested capacity up to a few thousand, with a preference for
		// values next to powers of two and next to 1.5 times a power of two
		req = r.Range(10, 4200)
		if r.Bool() {
			b := 1 << r.Range(3, 11)
			req = []int{b - 1, b, b + 1, b + 2, b + b/2, b + b/2 + 1, b + b/2 - 1}[r.N(7)]
		}
	}
	c.Params["cap_req"] = req
	if r.Pct(8) {
		c.Params["twin"] = 1 // a second ring is used alternately by every thread
	}
	c.Params["elem"] = r.Pick(6, 2, 3, 2, 1) // element type: int, string, three-word struct, pointer, interface
	capEff := 2
	for capEff < req {
		capEff *= 2
	}
	// rotation: number of push/pop pairs already performed; 2^32-j via fast-forward
	switch r.Pick(4, 3, 3) {
	case 0:
		c.Params["pairs"] = 0
	case 1:
		c.Params["pairs"] = r.N(3*capEff + 1)
	case 2:
		// counters just below a power of two: 2^32 (wrap) mostly, 2^16 / 2^24 / 2^31 sometimes
		top := []int{32, 32, 32, 16, 24, 31}[r.N(6)]
		c.Params["pairs"] = (1 << top) - r.N(2*capEff+3)
	}
	if capEff > 16 {
		// big rings: few real pairs only (validating the fast-forward there costs seconds)
		c.Params["pairs"] = r.N(10)
	}
	fill := r.N(capEff + 1)
	if r.Pct(25) {
		fill = capEff
	}
	if r.Pct(25) {
		fill = 0
	}
	if capEff > 64 && fill > 64 {
		fill = 64
	}
	c.Params["fill"] = fill
	nT := r.Range(1, maxT)
	if r.Pct(60) {
		nT = r.Range(2, 3)
	}
	if r.Pct(3) {
		nT, maxOps = r.Range(6, 10), 2 // rare: many threads, one or two operations each
	}
	scen := r.Pick(8, 1, 1) // general | pushers only | poppers only
	c.Params["scenario"] = scen
	w := []int{r.Range(1, 6), r.Range(1, 6), r.Range(0, 2), r.Range(0, 1), r.Range(0, 1), r.Range(0, 2), r.Range(0, 2), 0, r.N(4) / 3}
	if r.Pct(12) {
		w[7] = 1 // a new ring is created (and used) while the others are in use
	}
	total := 0
	zeroPushed := false
	for t := 0; t < nT; t++ {
		n := r.Range(1, maxOps)
		if scen != 0 {
			n = 1
		}
		var prog []sim.Op
		for i := 0; i < n; i++ {
			k := r.Pick(w...)
			if scen == 1 {
				k = 0
			} else if scen == 2 {
				k = 1
			}
			op := sim.Op{Op: opNames[k]}
			if k == 7 {
				op.V = i + 1
			}
			if k == 0 || k == 5 {
				op.V = (t+1)<<8 | (i + 1)
				if !zeroPushed && r.Pct(4) {
					op.V, zeroPushed = 0, true // the zero value of the element type (0, "", nil, struct{}) is an element like any other
				}
			}
			if k == 5 || k == 6 {
				op.D = []int{0, 5, 10, 25, 60, -1}[r.N(6)]
				if r.Pct(25) {
					op.D = r.Range(1, 80) // any relation between the deadline and the 10 ms poll tick
				}
			}
			prog = append(prog, op)
		}
		total += n
		c.Programs = append(c.Programs, prog)
	}
	if scen == 1 && fill+nT > capEff {
		c.Params["fill"] = capEff - nT
		if c.Params["fill"] < 0 {
			c.Params["fill"] = 0
			c.Params["scenario"] = 0
		}
	}
	if scen == 2 && fill < nT {
		if nT <= capEff {
			c.Params["fill"] = nT
		} else {
			c.Params["scenario"] = 0
		}
	}
	probe := -1
	if r.Pct(60) {
		probe = nT
		c.Programs = append(c.Programs, []sim.Op{{Op: "Len"}, {Op: "IsEmpty"}, {Op: "IsFull"}, {Op: "Drain"}})
	}
	c.Sched = enga.GenSched(r, nT, total, probe, c.Params["scenario"] == 0)
	if r.Pct(50) {
		c.Sched.TickPct = []int{2, 10, 30}[r.N(3)]
	}
	if r.Pct(5) {
		// a slow observer: one thread makes a single read-only call and is descheduled between
		// its loads, each time for as long as several operations of a busy thread take; small
		// ring, counters often just below 2^32
		small := []int{1, 2, 2, 3, 4}[r.N(5)]
		ce := 2
		for ce < small {
			ce *= 2
		}
		c.Params["cap_req"], c.Params["elem"], c.Params["twin"], c.Params["scenario"] = small, 0, 0, 0
		c.Params["fill"] = r.N(ce + 1)
		c.Params["pairs"] = 0
		if r.Pct(70) {
			c.Params["pairs"] = (1 << 32) - 1 - r.N(2*ce+6)
		}
		obs := sim.Op{Op: []string{"Len", "Len", "IsFull", "IsEmpty"}[r.N(4)]}
		var busy []sim.Op
		for i := 0; i < r.Range(5, 10); i++ {
			if r.Bool() {
				busy = append(busy, sim.Op{Op: "Push", V: 2<<8 | (i + 1)})
			} else {
				busy = append(busy, sim.Op{Op: "Pop"})
			}
		}
		c.Programs = [][]sim.Op{{obs}, busy}
		c.Sched = enga.GenSched(r, 2, len(busy)+1, -1, false)
		c.Sched.Stalls = []sim.Stall{
			{T: 0, AfterS: 3, For: r.Range(4, 40)},
			{T: 0, AfterS: 4, For: r.Range(4, 60)},
		}
		c.Sched.SpinBurn, c.Sched.FreezeAt = 0, -1
	}
	if r.Pct(2) {
		// a contended deadline: one thread makes a single timed wait on a ring that is neither
		// empty nor full but busy - another thread completes operation after operation of the same
		// kind - and the threads take turns in lockstep, so that the waiter may lose the same
		// race on every attempt up to and including the last one at its deadline
		pop := r.Bool()
		c.Params["cap_req"], c.Params["elem"], c.Params["twin"], c.Params["scenario"] = 16, r.N(2), 0, 0
		c.Params["contended"] = 1
		c.Params["pairs"] = 0
		if r.Pct(30) {
			c.Params["pairs"] = (1 << 32) - 1 - r.N(40)
		}
		waiter := sim.Op{Op: "PushWait", D: []int{1, 5, 9, 10, 11, 20}[r.N(6)], V: 1<<8 | 1}
		busyOp := "Push"
		c.Params["fill"] = 0
		if pop {
			waiter.Op, busyOp = "PopWait", "Pop"
			c.Params["fill"] = 16
		}
		var busy []sim.Op
		for i := 0; i < r.Range(10, 15); i++ {
			busy = append(busy, sim.Op{Op: busyOp, V: 2<<8 | (i + 1)})
		}
		c.Programs = [][]sim.Op{{waiter}, busy}
		c.Sched = enga.GenSched(r, 2, len(busy)+1, -1, false)
		c.Sched.Policy = "lockstep"
		c.Sched.Quanta = []int{r.Range(1, 4), r.Range(3, 8)}
		c.Sched.TickPct = []int{5, 10, 25}[r.N(3)]
		c.Sched.Stalls, c.Sched.SpinBurn, c.Sched.FreezeAt, c.Sched.ClockJumpPct = nil, 0, -1, 0
	}
	c.EnvSeed = r.U64() >> 12
	return c
}

var ffSkipped, ffUsed int

func build(c *sim.Case) enga.Instance {
	req := c.P("cap_req")
	ring, ri := newRing(c.P("elem"), req)
	x := &inst{r: ring, ri: ri, cap: ring.Cap(), probe: c.Sched.Probe, elem: c.P("elem")}
	if c.P("twin") == 1 {
		x.tw, _ = newRing(c.P("elem"), 64)
	}
	pairs := c.P("pairs")
	if pairs > 0 {
		if pairs <= 3*x.cap {
			for i := 0; i < pairs; i++ {
				x.r.Push(0xE000 + i)
				x.r.Pop()
			}
		} else if x.ri != nil && x.cap <= 16 && validateFF(req) && fastForward(x.ri, uint32(pairs)) {
			ffUsed++
		} else {
			ffSkipped++
		}
	}
	fill := c.P("fill")
	if fill > x.cap {
		fill = x.cap
	}
	for i := 0; i < fill; i++ {
		v := 0xF000 + i + 1
		if x.r.Push(v) {
			x.init = append(x.init, v)
		}
	}
	return x
}

const site = "ringz.(*SyncRing)"

func check(run *enga.Run) *sim.Violation {
	c, recs, res := run.Case, run.Recs, run.Res
	x := run.Inst.(*inst)
	probe := c.Sched.Probe
	if ffUsed > 0 {
		run.Out.Probes["counters_fast_forwarded_near_2^32"] += ffUsed
		ffUsed = 0
	}
	if ffSkipped > 0 {
		run.Out.Probes["fast_forward_unavailable_skipped"] += ffSkipped
		ffSkipped = 0
	}
	invoked := map[int]bool{}
	for _, v := range x.init {
		invoked[v] = true
	}
	okPushes, okPops := len(x.init), 0
	pendingPush, pendingPop := 0, 0
	for t, prog := range c.Programs {
		for i, op := range prog {
			r := recs[t][i]
			if !r.Started {
				continue
			}
			switch op.Op {
			case "Fresh":
				run.Out.Probes["fresh_instance_created_during_run"]++
				if r.Done && !r.OK {
					return &sim.Violation{Class: "fresh_instance_disturbed", Site: "ringz.NewSync", Detail: fmt.Sprintf("a ring created while other rings are in use: pushed %#x, Len() = %d, %d further pushes fitted into capacity %d, Pop() = %#x (expected length 1, capacity-1 further pushes and the first value back)", r.Vs[0], r.Vs[1], r.Vs[2], r.Vs[3], r.V)}
				}
			case "Push", "PushWait":
				invoked[op.V] = true
				if r.Done && r.OK {
					okPushes++
				}
				if !r.Done {
					pendingPush++
				}
			case "Pop", "PopWait":
				if !r.Done {
					pendingPop++
				}
			}
		}
	}
	popped := map[int]int{}
	takeVal := func(v int) *sim.Violation {
		if !invoked[v] {
			return &sim.Violation{Class: "value_invented", Site: site + ".Pop", Detail: fmt.Sprintf("popped %#x which no Push was invoked with", v)}
		}
		popped[v]++
		if popped[v] > 1 {
			return &sim.Violation{Class: "value_duplicated", Site: site + ".Pop", Detail: fmt.Sprintf("value %#x popped twice", v)}
		}
		return nil
	}
	pushOKvals := map[int]bool{}
	for _, v := range x.init {
		pushOKvals[v] = true
	}
	for t, prog := range c.Programs {
		for i, op := range prog {
			r := recs[t][i]
			if !r.Done {
				continue
			}
			switch op.Op {
			case "Push", "PushWait":
				if r.OK {
					pushOKvals[op.V] = true
				}
			case "Pop", "PopWait":
				if r.OK {
					okPops++
					if v := takeVal(r.V); v != nil {
						return v
					}
				}
			case "Drain":
				for _, pv := range r.Vs {
					if v := takeVal(pv); v != nil {
						return v
					}
				}
			case "Cap":
				if r.Done && r.V != x.cap {
					return &sim.Violation{Class: "cap_changed", Site: site + ".Cap", Detail: fmt.Sprintf("Cap() = %d while operations were running, %d before", r.V, x.cap)}
				}
			case "Len":
				if r.V < 0 || r.V > x.cap {
					return &sim.Violation{Class: "len_out_of_range", Site: site + ".Len", Detail: fmt.Sprintf("Len() = %d with Cap() = %d", r.V, x.cap)}
				}
			}
		}
	}
	// a popped value must come from a push that succeeded or is still in flight
	for t, prog := range c.Programs {
		for i, op := range prog {
			r := recs[t][i]
			if (op.Op == "Push" || op.Op == "PushWait") && r.Done && !r.OK && popped[op.V] > 0 {
				return &sim.Violation{Class: "value_invented", Site: site + ".Push", Detail: fmt.Sprintf("value %#x of a Push that returned false was popped", op.V)}
			}
		}
	}

	if c.Sched != nil && c.Sched.Policy == "lockstep" {
		run.Out.Probes["lockstep_schedule"]++
	}
	if c.P("contended") == 1 && len(recs) > 0 && len(recs[0]) > 0 && recs[0][0].Done && !recs[0][0].OK {
		run.Out.Probes["timed_wait_lost_every_race_up_to_its_deadline"]++
	}
	end := res.End
	if end == core.EndBudget && onlyIndefiniteWaits(c, recs, res) {
		// Every call still running when the step budget ended is a wait without a deadline.  The
		// scheduler recognises such a wait as stuck when its retries write nothing; an
		// implementation whose failed attempts do write (a statistics counter, say) polls on
		// until the budget.  Whether the wait is legitimate is decided exactly as for the stuck
		// spin: by what the model says is stored.
		end = core.EndStuckSpin
		run.Out.Probes["indefinite_wait_still_polling_at_step_budget"]++
	}
	switch end {
	case core.EndBudget:
		return &sim.Violation{Class: "liveness", Site: site, Detail: fmt.Sprintf("run did not finish within %d steps under the fair policy", c.Sched.MaxSteps)}
	case core.EndDeadlock:
		return &sim.Violation{Class: "liveness", Site: site, Detail: "threads blocked for good"}
	case core.EndStuckSpin:
		// legitimate only if every spinner is PushWait(<0) on a full ring or PopWait(<0) on an empty one
		stored := okPushes - okPops
		for _, t := range res.Unfinished {
			for i, op := range c.Programs[t] {
				r := recs[t][i]
				if r.Started && !r.Done {
					switch {
					case op.Op == "PushWait" && op.D < 0:
						if stored != x.cap || pendingPop > 0 {
							return &sim.Violation{Class: "no_progress_pushers", Site: site + ".PushWait", Detail: fmt.Sprintf("blocking PushWait spins forever with %d of %d slots used", stored, x.cap)}
						}
					case op.Op == "PopWait" && op.D < 0:
						if stored != 0 || pendingPush > 0 {
							return &sim.Violation{Class: "no_progress_poppers", Site: site + ".PopWait", Detail: fmt.Sprintf("blocking PopWait spins forever with %d values stored", stored)}
						}
					default:
						return &sim.Violation{Class: "liveness", Site: site + "." + op.Op, Detail: "operation spins forever"}
					}
				}
			}
		}
		run.Out.Probes["blocking_wait_legitimately_stuck"]++
	case core.EndFrozen, core.EndComplete:
		quiescent := res.End == core.EndComplete
		if quiescent && x.tw != nil {
			run.Out.Probes["twin_instance_used_alternately"]++
			want, got := map[int]bool{}, map[int]int{}
			for t := range x.twl {
				for _, v := range x.twl[t].pushed {
					want[v] = true
				}
				for _, v := range x.twl[t].popped {
					got[v]++
				}
			}
			for i := 0; i < 70; i++ {
				v, ok := x.tw.Pop()
				if !ok {
					break
				}
				got[v]++
			}
			for v, n := range got {
				if !want[v] {
					return &sim.Violation{Class: "value_invented", Site: site + ".Pop", Detail: fmt.Sprintf("twin ring (used alternately with the first by every thread) delivered %#x, which nobody pushed to it", v)}
				}
				if n > 1 {
					return &sim.Violation{Class: "value_duplicated", Site: site + ".Pop", Detail: fmt.Sprintf("twin ring delivered %#x %d times", v, n)}
				}
			}
			for v := range want {
				if got[v] == 0 {
					return &sim.Violation{Class: "value_lost", Site: site + ".Push", Detail: fmt.Sprintf("twin ring lost %#x (pushed successfully, never delivered, not stored)", v)}
				}
			}
		}
		var L, cnt int
		var emp, full bool
		haveProbe := false
		if probe >= 0 {
			pr := recs[probe]
			if !pr[0].Done || !pr[1].Done || !pr[2].Done || !pr[3].Done {
				return &sim.Violation{Class: "liveness", Site: site, Detail: "probe did not finish"}
			}
			L, emp, full, cnt = pr[0].V, pr[1].OK, pr[2].OK, len(pr[3].Vs)
			haveProbe = true
			if !quiescent {
				run.Out.Probes["freeze_probe"]++
			}
		} else if quiescent {
			L, emp, full = x.r.Len(), x.r.IsEmpty(), x.r.IsFull()
			for i := 0; i < x.cap+2; i++ {
				v, ok := x.r.Pop()
				if !ok {
					break
				}
				cnt++
				if vv := takeVal(v); vv != nil {
					return vv
				}
			}
			haveProbe = true
		}
		if quiescent && haveProbe {
			run.Out.Probes["quiescent_probe"]++
			if L != cnt || emp != (cnt == 0) || full != (cnt == x.cap) {
				return &sim.Violation{Class: "quiescent_mismatch", Site: site + ".Len", Detail: fmt.Sprintf("no operation in flight: Len()=%d IsEmpty=%v IsFull=%v but %d values stored, Cap()=%d", L, emp, full, cnt, x.cap)}
			}
			for v := range pushOKvals {
				if popped[v] == 0 {
					return &sim.Violation{Class: "value_lost", Site: site + ".Pop", Detail: fmt.Sprintf("value %#x was pushed successfully but neither popped nor left in the ring", v)}
				}
			}
		}
		// progress clause scenarios
		if quiescent {
			switch c.P("scenario") {
			case 1:
				any := false
				for t, prog := range c.Programs {
					if t != probe && len(prog) > 0 && recs[t][0].OK {
						any = true
					}
				}
				run.Out.Probes["pushers_only_scenario"]++
				if !any {
					return &sim.Violation{Class: "no_progress_pushers", Site: site + ".Push", Detail: "only pushers ran on a ring with enough free slots and none succeeded"}
				}
			case 2:
				any := false
				for t, prog := range c.Programs {
					if t != probe && len(prog) > 0 && recs[t][0].OK {
						any = true
					}
				}
				run.Out.Probes["poppers_only_scenario"]++
				if !any {
					return &sim.Violation{Class: "no_progress_poppers", Site: site + ".Pop", Detail: "only poppers ran on a ring with enough stored elements and none succeeded"}
				}
			}
		}
	}

	// linearizability against the bounded FIFO
	var ops []porcupine.Operation
	for t, prog := range c.Programs {
		for i, op := range prog {
			r := recs[t][i]
			if !r.Started {
				continue
			}
			o := porcupine.Operation{ClientId: t, Call: int64(r.Call) * 1000, Return: int64(r.Ret) * 1000}
			if !r.Done {
				o.Return = enga.Infinity
			}
			switch op.Op {
			case "Push", "PushWait":
				switch {
				case !r.Done:
					o.Input, o.Output = enga.QIn{Kind: enga.QPushMaybe, V: op.V}, enga.QOut{}
				case r.OK:
					o.Input, o.Output = enga.QIn{Kind: enga.QPush, V: op.V}, enga.QOut{OK: true}
				default:
					if enga.Overlapped(recs, t, i) {
						continue
					}
					run.Out.Probes["failed_push_not_overlapped"]++
					o.Input, o.Output = enga.QIn{Kind: enga.QPush, V: op.V}, enga.QOut{OK: false}
				}
			case "Pop", "PopWait":
				switch {
				case !r.Done:
					o.Input, o.Output = enga.QIn{Kind: enga.QPopMaybe}, enga.QOut{}
				case r.OK:
					o.Input, o.Output = enga.QIn{Kind: enga.QPop}, enga.QOut{OK: true, V: r.V}
				default:
					if enga.Overlapped(recs, t, i) {
						continue
					}
					run.Out.Probes["failed_pop_not_overlapped"]++
					o.Input, o.Output = enga.QIn{Kind: enga.QPop}, enga.QOut{OK: false}
				}
			case "Len", "IsEmpty", "IsFull":
				if !r.Done || enga.Overlapped(recs, t, i) {
					continue
				}
				switch op.Op {
				case "Len":
					o.Input, o.Output = enga.QIn{Kind: enga.QLen}, enga.QOut{V: r.V}
				case "IsEmpty":
					o.Input, o.Output = enga.QIn{Kind: enga.QEmpty}, enga.QOut{OK: r.OK}
				case "IsFull":
					o.Input, o.Output = enga.QIn{Kind: enga.QFull}, enga.QOut{OK: r.OK}
				}
			case "Fresh", "Cap":
				continue // another ring / a constant: not part of this ring's history
			case "Drain":
				if !r.Done {
					continue
				}
				for j, v := range r.Vs {
					ops = append(ops, porcupine.Operation{ClientId: t, Call: int64(r.Call)*1000 + int64(j)*2, Return: int64(r.Call)*1000 + int64(j)*2 + 1,
						Input: enga.QIn{Kind: enga.QPop}, Output: enga.QOut{OK: true, V: v}})
				}
				continue
			}
			ops = append(ops, o)
		}
	}
	if len(ops) > 40 {
		run.Out.Probes["history_too_long_for_linearizability_check"]++
	}
	if len(ops) > 0 && len(ops) <= 40 {
		switch enga.CheckLin(enga.QueueModel(x.cap, x.init), ops) {
		case porcupine.Ok:
			run.Out.PorcOK++
		case porcupine.Unknown:
			run.Out.PorcUnknown++
		case porcupine.Illegal:
			run.Out.PorcIllegal++
			return &sim.Violation{Class: "not_linearizable", Site: site, Detail: "history has no linearization as a FIFO queue of capacity Cap()"}
		}
	}
	return nil
}

// wrapCheck (thorough tier, non-race build, VERIF_C01_WRAP=<result file>): performs 2^32-8
// REAL push/pop pairs so that the 32-bit position counters are about to wrap, compares the
// ring with the fast-forwarded one the simulated configurations use, then drives the real
// ring across the wrap single-threaded against a FIFO model.
func wrapCheck(path string) {
	type result struct {
		Pairs       uint64  `json:"pairs"`
		FFEqual     bool    `json:"fast_forward_equal"`
		AcrossWrap  int     `json:"ops_across_wrap"`
		Failure     string  `json:"failure,omitempty"`
		WallSeconds float64 `json:"wall_s"`
	}
	start := time.Now()
	res := result{}
	const req = 3 // Cap() == 4
	a := ringz.NewSync[int](req)
	n := uint64(1)<<32 - 8
	for i := uint64(0); i < n; i++ {
		if !a.Push(int(i)) {
			res.Failure = fmt.Sprintf("Push failed at pair %d on an empty ring", i)
			break
		}
		v, ok := a.Pop()
		if !ok || v != int(i) {
			res.Failure = fmt.Sprintf("Pop at pair %d returned (%d,%v)", i, v, ok)
			break
		}
	}
	res.Pairs = n
	if res.Failure == "" {
		b := ringz.NewSync[int](req)
		res.FFEqual = fastForward(&b, uint32(n)) && reflect.DeepEqual(a, b)
		// across the wrap: fill, drain, partial fills, against a slice model
		var model []int
		next := 1
		for step := 0; step < 64 && res.Failure == ""; step++ {
			k := step%(a.Cap()+1) + 1
			for j := 0; j < k; j++ {
				ok := a.Push(next)
				if ok != (len(model) < a.Cap()) {
					res.Failure = fmt.Sprintf("step %d: Push=%v with %d of %d stored", step, ok, len(model), a.Cap())
					break
				}
				if ok {
					model = append(model, next)
				}
				next++
				res.AcrossWrap++
			}
			if a.Len() != len(model) || a.IsEmpty() != (len(model) == 0) || a.IsFull() != (len(model) == a.Cap()) {
				res.Failure = fmt.Sprintf("step %d: Len=%d IsEmpty=%v IsFull=%v, model holds %d", step, a.Len(), a.IsEmpty(), a.IsFull(), len(model))
			}
			for j := 0; j < (step%3)+1 && res.Failure == ""; j++ {
				v, ok := a.Pop()
				if ok != (len(model) > 0) || (ok && v != model[0]) {
					res.Failure = fmt.Sprintf("step %d: Pop=(%d,%v), model %v", step, v, ok, model)
					break
				}
				if ok {
					model = model[1:]
				}
				res.AcrossWrap++
			}
		}
	}
	res.WallSeconds = time.Since(start).Seconds()
	sim.WriteJSON(path, res)
}

func main() {
	if p := os.Getenv("VERIF_C01_WRAP"); p != "" {
		wrapCheck(p)
		return
	}
	enga.Main(&enga.Spec{ID: "C01", Gen: gen, New: build, Check: check,
		// everything but the wait-for-ever calls must finish by itself
		Bounded: func(op sim.Op) bool { return !((op.Op == "PushWait" || op.Op == "PopWait") && op.D < 0) }})
}

// onlyIndefiniteWaits: every call that was started and has not returned is a PushWait or PopWait
// without a deadline (and there is at least one).
func onlyIndefiniteWaits(c *sim.Case, recs [][]sim.Rec, res *core.Result) bool {
	n := 0
	for _, t := range res.Unfinished {
		for i, op := range c.Programs[t] {
			if r := recs[t][i]; r.Started && !r.Done {
				if (op.Op != "PushWait" && op.Op != "PopWait") || op.D >= 0 {
					return false
				}
				n++
			}
		}
	}
	return n > 0
}
