// C11 — SyncList is a linearizable unbounded FIFO queue with a sane length (Engine A).
package main

import (
	"fmt"
	"os"
	"strconv"
	"strings"
	"sync/atomic"
	"time"

	"harness/enga"
	"harness/sim"

	"github.com/anishathalye/porcupine"
	"github.com/welllog/golib/listz"
	"github.com/welllog/golib/zzsim/core"
)

// listAPI is the list seen through int values; the element type of the real list varies per
// case (elem), so that a change which is wrong only for some instantiation (multi-word values
// copied non-atomically, pointer-free fast paths) does not hide behind SyncList[int].
type listAPI interface {
	Push(int)
	Pop() (int, bool)
	PopWait(time.Duration) (int, bool)
	Len() int
}

type listOf[T any] struct {
	l   *listz.SyncList[T]
	enc func(int) T
	dec func(T) int
}

func (a *listOf[T]) Push(v int) { a.l.Push(a.enc(v)) }
func (a *listOf[T]) Pop() (int, bool) {
	v, ok := a.l.Pop()
	if !ok {
		return 0, false
	}
	return a.dec(v), true
}
func (a *listOf[T]) PopWait(d time.Duration) (int, bool) {
	v, ok := a.l.PopWait(d)
	if !ok {
		return 0, false
	}
	return a.dec(v), true
}
func (a *listOf[T]) Len() int { return a.l.Len() }

type triple struct {
	A int
	B int64
	C uint64
}

const tornBase = 0x7ead0000

func newList(elem int) listAPI {
	switch elem {
	case 1:
		return &listOf[string]{l: listz.NewSync[string](), enc: func(v int) string {
			if v == 0 {
				return "" // value 0 stands for the zero value of the element type: an element like any other
			}
			return "v" + strconv.Itoa(v)
		},
			dec: func(s string) int {
				if s == "" {
					return 0
				}
				n, err := strconv.Atoi(strings.TrimPrefix(s, "v"))
				if err != nil || !strings.HasPrefix(s, "v") {
					return tornBase + len(s)
				}
				return n
			}}
	case 2:
		return &listOf[triple]{l: listz.NewSync[triple](), enc: func(v int) triple {
			if v == 0 {
				return triple{}
			}
			return triple{v, ^int64(v), uint64(v) * 3}
		},
			dec: func(t triple) int {
				if t == (triple{}) {
					return 0
				}
				if t.B != ^int64(t.A) || t.C != uint64(t.A)*3 {
					return tornBase + 1000 + t.A&0xff
				}
				return t.A
			}}
	case 3:
		return &listOf[*int]{l: listz.NewSync[*int](), enc: func(v int) *int {
			if v == 0 {
				return nil
			}
			return &v
		},
			dec: func(p *int) int {
				if p == nil {
					return 0
				}
				return *p
			}}
	case 4:
		return &listOf[any]{l: listz.NewSync[any](), enc: func(v int) any {
			if v == 0 {
				return nil
			}
			return v
		},
			dec: func(x any) int {
				if n, ok := x.(int); ok {
					return n
				}
				if x == nil {
					return 0
				}
				return tornBase + 3000
			}}
	}
	return &listOf[int]{l: listz.NewSync[int](), enc: func(v int) int { return v }, dec: func(v int) int { return v }}
}

type inst struct {
	l    listAPI
	init []int
	// the twin: a second list of the same element type that every thread uses alternately with
	// the first (one Push before, one Pop after each operation).  Two lists share nothing, so the
	// twin must neither lose, duplicate nor invent a value.
	tw   listAPI
	elem int
	twl  [16]struct{ pushed, popped []int }
	// the probe thread runs while the others are frozen in the middle of their operations: it
	// keeps its hands off the twin (a frozen twin Push would make it wait for ever)
	probe int
}

func (x *inst) Do(t int, op sim.Op) sim.Rec {
	if x.tw != nil && t < len(x.twl) && t != x.probe {
		l := &x.twl[t]
		v := 0x100000 + t<<12 + len(l.pushed)
		x.tw.Push(v)
		l.pushed = append(l.pushed, v)
		defer func() {
			if v, ok := x.tw.Pop(); ok {
				l.popped = append(l.popped, v)
			}
		}()
	}
	var r sim.Rec
	switch op.Op {
	case "Push":
		x.l.Push(op.V)
		r.OK = true
	case "Pop":
		r.V, r.OK = x.l.Pop()
	case "PopWait":
		r.V, r.OK = x.l.PopWait(time.Duration(op.D) * time.Millisecond)
	case "Len":
		r.V = x.l.Len()
		r.OK = true
	case "Fresh":
		// a list created while the others are in use: it shares nothing with them
		f := newList(x.elem)
		v := 0x200000 + t<<8 + op.V
		f.Push(v)
		n1 := f.Len()
		got, ok := f.Pop()
		n2 := f.Len()
		_, again := f.Pop()
		r.V, r.OK = got, ok && got == v && n1 == 1 && n2 == 0 && !again
		r.Vs = []int{v, n1, n2}
	case "Drain":
		for i := 0; i < 1000; i++ {
			v, ok := x.l.Pop()
			if !ok {
				break
			}
			r.Vs = append(r.Vs, v)
		}
		r.OK = true
	default:
		panic("c11: unknown op " + op.Op)
	}
	return r
}

func gen(r *sim.Rng, tier string) *sim.Case {
	maxT, maxOps := 4, 4
	if tier == "thorough" {
		maxT, maxOps = 6, 5
	}
	c := &sim.Case{Params: map[string]int{}}
	nT := r.Range(1, maxT)
	if r.Pct(60) {
		nT = r.Range(2, 3)
	}
	if r.Pct(3) {
		nT, maxOps = r.Range(6, 10), 2 // rare: many threads, one or two operations each
	}
	c.Params["init"] = r.Pick(5, 3, 2, 1)
	if r.Pct(3) {
		c.Params["init"] = r.Range(40, 120)
	}
	total := 0
	// swarm: op mix per case
	wPush, wPop, wLen, wWait := r.Range(1, 6), r.Range(1, 6), r.Range(0, 3), r.Range(0, 2)
	wFresh := 0
	if r.Pct(15) {
		wFresh = 1 // a new list is created (and used) while the others are in use
	}
	zeroPushed := false
	for t := 0; t < nT; t++ {
		n := r.Range(1, maxOps)
		var prog []sim.Op
		for i := 0; i < n; i++ {
			switch r.Pick(wPush, wPop, wLen, wWait, wFresh) {
			case 4:
				prog = append(prog, sim.Op{Op: "Fresh", V: i + 1})
			case 0:
				v := (t+1)<<8 | (i + 1)
				if !zeroPushed && r.Pct(4) {
					v, zeroPushed = 0, true // the zero value of the element type is an element like any other
				}
				prog = append(prog, sim.Op{Op: "Push", V: v})
			case 1:
				prog = append(prog, sim.Op{Op: "Pop"})
			case 2:
				prog = append(prog, sim.Op{Op: "Len"})
			case 3:
				d := []int{0, 5, 10, 25, 60, -1}[r.N(6)]
				if r.Pct(25) {
					d = r.Range(1, 80)
				}
				prog = append(prog, sim.Op{Op: "PopWait", D: d})
			}
		}
		total += n
		c.Programs = append(c.Programs, prog)
	}
	// unbounded pushes always succeed, so many orders are consistent: keep histories short
	for total > 24 {
		t := r.N(nT)
		if len(c.Programs[t]) > 1 {
			c.Programs[t] = c.Programs[t][:len(c.Programs[t])-1]
			total--
		}
	}
	probe := -1
	if r.Pct(65) {
		probe = nT
		c.Programs = append(c.Programs, []sim.Op{{Op: "Len"}, {Op: "Drain"}})
	}
	c.Sched = enga.GenSched(r, nT, total, probe, true)
	if r.Pct(50) {
		c.Sched.TickPct = []int{2, 10, 30}[r.N(3)]
	}
	if r.Pct(8) {
		c.Params["twin"] = 1 // a second list is used alternately by every thread
	}
	if r.Pct(3) {
		// a writer descheduled in the middle of a multi-write update, for as long as the others
		// care to wait: one pusher is stalled right after its k-th write while another pusher
		// spins through a long budget and a third thread pops and reads the length
		c.Params["twin"] = 0
		np := r.Range(1, 2)
		c.Programs = [][]sim.Op{
			{{Op: "Push", V: 1<<8 | 1}},
			{{Op: "Push", V: 2<<8 | 1}},
			{{Op: []string{"Pop", "PopWait"}[r.N(2)], D: 5}, {Op: "Len"}, {Op: "Pop"}, {Op: "Len"}},
		}
		if np == 2 {
			c.Programs[0] = append(c.Programs[0], sim.Op{Op: "Push", V: 1<<8 | 2})
			c.Programs[1] = append([]sim.Op{{Op: "Pop"}}, c.Programs[1]...)
		}
		probe = 3
		c.Programs = append(c.Programs, []sim.Op{{Op: "Len"}, {Op: "Drain"}})
		c.Sched = enga.GenSched(r, 3, 8, probe, true)
		c.Sched.SpinBurn = []int{150, 300, 600, 1100, 1300, 2300}[r.N(6)]
		if r.Pct(40) {
			c.Sched.ClockJumpPct = []int{25, 60, 100}[r.N(3)]
		}
		c.Sched.MaxSteps = 40000
		if c.Sched.SpinBurn > 2000 {
			c.Sched.MaxSteps = 60000 // a waiter that consults the clock every thousand rounds gets to do it twice
		}
		c.Sched.Stalls = []sim.Stall{{T: r.N(2), At: 0, For: -1, AfterW: r.Range(1, 3)}}
		if r.Bool() {
			c.Sched.FreezeAt = -1
		} else {
			c.Sched.FreezeAt = r.Range(c.Sched.SpinBurn, c.Sched.SpinBurn*5)
		}
	}
	if r.Pct(4) {
		// a lagging popper: one Pop is descheduled at one of its own steps for a long while, two
		// busy poppers and a pusher carry on (the pusher itself is descheduled right after one of
		// its writes), and the state is probed while all of them are in flight: whatever a Pop
		// remembers from before the pause (a head, a tail, a next pointer) is stale when it resumes
		c.Params["twin"] = 0
		c.Params["init"] = r.Range(3, 9)
		busy := func(n int) []sim.Op {
			var p []sim.Op
			for i := 0; i < n; i++ {
				p = append(p, sim.Op{Op: "Pop"})
			}
			return p
		}
		var push []sim.Op
		for i := 0; i < r.Range(2, 5); i++ {
			push = append(push, sim.Op{Op: "Push", V: 4<<8 | (i + 1)})
		}
		c.Programs = [][]sim.Op{{{Op: "Pop"}, {Op: "Len"}}, busy(r.Range(3, 6)), busy(r.Range(2, 5)), push, {{Op: "Len"}, {Op: "Drain"}}}
		probe = 4
		total := 0
		for _, p := range c.Programs[:4] {
			total += len(p)
		}
		c.Sched = enga.GenSched(r, 4, total, probe, true)
		c.Sched.SpinBurn, c.Sched.ClockJumpPct, c.Sched.MaxSteps = 0, 0, 20000
		aw := r.Range(1, 3*len(push))
		if r.Pct(60) {
			aw = 1 + 3*r.N(len(push)) // right after the first write of one of its pushes
		}
		c.Sched.Stalls = []sim.Stall{
			{T: 0, AfterS: r.Range(3, 12), For: r.Range(40, 150)},
			{T: 3, At: 0, For: r.Range(8, 40)},               // the pusher starts late ...
			{T: 3, At: 0, AfterW: aw, For: r.Range(40, 160)}, // ... and is descheduled in the middle of a push
		}
		c.Sched.FreezeAt = r.Range(30, 160)
		c.Params["lagging"] = 1
	}
	c.Params["elem"] = r.Pick(6, 2, 3, 2, 1) // element type: int, string, three-word struct, pointer, interface
	if r.Pct(2) {
		// a contended deadline: one thread makes a single timed PopWait on a list that is not
		// empty but busy - another thread pops value after value - and the threads take turns
		// in lockstep, so that the waiter may lose the same race on every attempt up to and
		// including the last one at its deadline (a third thread sometimes pushes meanwhile)
		c.Params["twin"], c.Params["contended"] = 0, 1
		c.Params["init"] = r.Range(12, 20)
		waiter := sim.Op{Op: "PopWait", D: []int{1, 5, 9, 10, 11, 20}[r.N(6)]}
		var busy []sim.Op
		for i := 0; i < r.Range(10, 15); i++ {
			busy = append(busy, sim.Op{Op: "Pop"})
		}
		c.Programs = [][]sim.Op{{waiter}, busy}
		if r.Pct(30) {
			var feed []sim.Op
			for i := 0; i < r.Range(2, 5); i++ {
				feed = append(feed, sim.Op{Op: "Push", V: 3<<8 | (i + 1)})
			}
			c.Programs = append(c.Programs, feed)
		}
		total := 0
		for _, p := range c.Programs {
			total += len(p)
		}
		c.Sched = enga.GenSched(r, len(c.Programs), total, -1, false)
		c.Sched.Policy = "lockstep"
		c.Sched.Quanta = []int{r.Range(1, 4), r.Range(3, 8), r.Range(1, 6)}
		c.Sched.TickPct = []int{5, 10, 25}[r.N(3)]
		c.Sched.Stalls, c.Sched.SpinBurn, c.Sched.FreezeAt, c.Sched.ClockJumpPct = nil, 0, -1, 0
	}
	c.EnvSeed = r.U64() >> 12
	return c
}

func build(c *sim.Case) enga.Instance {
	x := &inst{l: newList(c.P("elem")), probe: c.Sched.Probe, elem: c.P("elem")}
	if c.P("twin") == 1 {
		x.tw = newList(c.P("elem"))
	}
	for i := 0; i < c.P("init"); i++ {
		v := 0xF000 + i + 1
		x.l.Push(v)
		x.init = append(x.init, v)
	}
	return x
}

func check(run *enga.Run) *sim.Violation {
	c, recs, res := run.Case, run.Recs, run.Res
	x := run.Inst.(*inst)
	probe := c.Sched.Probe
	invoked := map[int]bool{}
	completed := map[int]bool{}
	for _, v := range x.init {
		invoked[v], completed[v] = true, true
	}
	pendingPops := 0
	for t, prog := range c.Programs {
		for i, op := range prog {
			r := recs[t][i]
			if !r.Started {
				continue
			}
			switch op.Op {
			case "Push":
				invoked[op.V] = true
				if r.Done {
					completed[op.V] = true
				}
			case "Pop", "PopWait":
				if !r.Done {
					pendingPops++
				}
			}
		}
	}
	popped := map[int]int{}
	takeVal := func(v int, site string) *sim.Violation {
		if !invoked[v] {
			return &sim.Violation{Class: "value_invented", Site: site, Detail: fmt.Sprintf("popped %#x which no Push was invoked with", v)}
		}
		popped[v]++
		if popped[v] > 1 {
			return &sim.Violation{Class: "value_duplicated", Site: site, Detail: fmt.Sprintf("value %#x popped twice", v)}
		}
		return nil
	}
	for t, prog := range c.Programs {
		for i, op := range prog {
			r := recs[t][i]
			if !r.Done {
				continue
			}
			switch op.Op {
			case "Pop", "PopWait":
				if r.OK {
					if v := takeVal(r.V, "listz.(*SyncList).Pop"); v != nil {
						return v
					}
				}
			case "Drain":
				for _, pv := range r.Vs {
					if v := takeVal(pv, "listz.(*SyncList).Pop"); v != nil {
						return v
					}
				}
			case "Len":
				if r.V < 0 {
					return &sim.Violation{Class: "len_negative", Site: "listz.(*SyncList).Len", Detail: fmt.Sprintf("Len() = %d", r.V)}
				}
			case "Fresh":
				run.Out.Probes["fresh_instance_created_during_run"]++
				if r.Done && !r.OK {
					return &sim.Violation{Class: "fresh_instance_disturbed", Site: "listz.NewSync", Detail: fmt.Sprintf("a list created while other lists are in use: pushed %#x, Len() = %d, Pop() = %#x, then Len() = %d (expected the value back and lengths 1 and 0)", r.Vs[0], r.Vs[1], r.V, r.Vs[2])}
				}
			}
		}
	}
	missingCompleted := 0
	for v := range completed {
		if popped[v] == 0 {
			missingCompleted++
		}
	}

	if c.Sched != nil && c.Sched.Policy == "lockstep" {
		run.Out.Probes["lockstep_schedule"]++
	}
	if c.P("lagging") == 1 {
		run.Out.Probes["pop_descheduled_at_one_of_its_own_steps_next_to_busy_poppers_and_a_stalled_pusher"]++
	}
	if c.P("contended") == 1 && len(recs) > 0 && len(recs[0]) > 0 && recs[0][0].Done {
		run.Out.Probes["timed_wait_next_to_a_busy_popper_in_lockstep"]++
	}
	end := res.End
	if end == core.EndBudget && onlyIndefiniteWaits(c, recs, res) {
		// Every call still running when the step budget ended is a PopWait without a deadline.
		// The scheduler recognises such a wait as stuck when its retries write nothing; an
		// implementation whose failed attempts do write (a statistics counter, say) polls on
		// until the budget.  Whether the wait is legitimate is decided exactly as for the stuck
		// spin: by whether a completed Push is still waiting to be popped.
		end = core.EndStuckSpin
		run.Out.Probes["indefinite_wait_still_polling_at_step_budget"]++
	}
	switch end {
	case core.EndBudget:
		return &sim.Violation{Class: "liveness", Site: "listz.(*SyncList)", Detail: fmt.Sprintf("run did not finish within %d steps under the fair policy", c.Sched.MaxSteps)}
	case core.EndDeadlock:
		return &sim.Violation{Class: "liveness", Site: "listz.(*SyncList)", Detail: "threads blocked for good"}
	case core.EndStuckSpin:
		for _, t := range res.Unfinished {
			for i, op := range c.Programs[t] {
				r := recs[t][i]
				if r.Started && !r.Done {
					if op.Op == "Push" {
						return &sim.Violation{Class: "no_progress_pushers", Site: "listz.(*SyncList).Push", Detail: "every remaining thread spins and no in-flight pusher can publish the tail"}
					}
					if op.Op == "PopWait" && missingCompleted > 0 {
						return &sim.Violation{Class: "no_progress_poppers", Site: "listz.(*SyncList).PopWait", Detail: fmt.Sprintf("PopWait spins forever although %d pushed values were never popped", missingCompleted)}
					}
					if op.Op != "PopWait" {
						return &sim.Violation{Class: "liveness", Site: "listz.(*SyncList)." + op.Op, Detail: "operation spins forever"}
					}
				}
			}
		}
		run.Out.Probes["blocking_popwait_on_empty_list"]++
		// the spinning PopWait calls stay pending; nothing more can be said about Len
	case core.EndFrozen, core.EndComplete:
		if res.End == core.EndComplete && x.tw != nil {
			run.Out.Probes["twin_instance_used_alternately"]++
			const tsite = "listz.(*SyncList)"
			want, got := map[int]bool{}, map[int]int{}
			for t := range x.twl {
				for _, v := range x.twl[t].pushed {
					want[v] = true
				}
				for _, v := range x.twl[t].popped {
					got[v]++
				}
			}
			if n := x.tw.Len(); n != len(want)-len(got) {
				return &sim.Violation{Class: "quiescent_mismatch", Site: tsite + ".Len", Detail: fmt.Sprintf("twin list (used alternately with the first by every thread): Len() = %d with %d values stored", n, len(want)-len(got))}
			}
			for i := 0; i < 1000; i++ {
				v, ok := x.tw.Pop()
				if !ok {
					break
				}
				got[v]++
			}
			for v, n := range got {
				if !want[v] {
					return &sim.Violation{Class: "value_invented", Site: tsite + ".Pop", Detail: fmt.Sprintf("twin list delivered %#x, which nobody pushed to it", v)}
				}
				if n > 1 {
					return &sim.Violation{Class: "value_duplicated", Site: tsite + ".Pop", Detail: fmt.Sprintf("twin list delivered %#x %d times", v, n)}
				}
			}
			for v := range want {
				if got[v] == 0 {
					return &sim.Violation{Class: "value_lost", Site: tsite + ".Push", Detail: fmt.Sprintf("twin list lost %#x", v)}
				}
			}
		}
		if probe >= 0 {
			pl, pd := recs[probe][0], recs[probe][1]
			if !pl.Done || !pd.Done {
				return &sim.Violation{Class: "liveness", Site: "listz.(*SyncList)", Detail: "probe did not finish"}
			}
			L, cnt := pl.V, len(pd.Vs)
			if res.End == core.EndFrozen {
				run.Out.Probes["freeze_probe"]++
				if L < cnt {
					return &sim.Violation{Class: "len_below_poppable", Site: "listz.(*SyncList).Len", Detail: fmt.Sprintf("with every other thread frozen Len()=%d but %d values could be popped", L, cnt)}
				}
				if L != cnt {
					run.Out.Probes["probe_len_above_poppable"]++
				}
				if missingCompleted > pendingPops {
					return &sim.Violation{Class: "value_lost", Site: "listz.(*SyncList).Pop", Detail: fmt.Sprintf("%d completed pushes never popped but only %d pops in flight", missingCompleted, pendingPops)}
				}
			} else {
				run.Out.Probes["quiescent_probe"]++
				if L != cnt {
					return &sim.Violation{Class: "quiescent_mismatch", Site: "listz.(*SyncList).Len", Detail: fmt.Sprintf("no operation in flight: Len()=%d but %d values stored", L, cnt)}
				}
				if missingCompleted > 0 {
					return &sim.Violation{Class: "value_lost", Site: "listz.(*SyncList).Pop", Detail: fmt.Sprintf("%d pushed values neither popped nor left in the list", missingCompleted)}
				}
			}
		} else {
			// final single-threaded drain by the controller
			L := x.l.Len()
			cnt := 0
			for {
				v, ok := x.l.Pop()
				if !ok {
					break
				}
				cnt++
				if vv := takeVal(v, "listz.(*SyncList).Pop"); vv != nil {
					return vv
				}
			}
			if L != cnt {
				return &sim.Violation{Class: "quiescent_mismatch", Site: "listz.(*SyncList).Len", Detail: fmt.Sprintf("no operation in flight: Len()=%d but %d values stored", L, cnt)}
			}
			for v := range completed {
				if popped[v] == 0 {
					return &sim.Violation{Class: "value_lost", Site: "listz.(*SyncList).Pop", Detail: fmt.Sprintf("value %#x neither popped nor left in the list", v)}
				}
			}
		}
	}

	// linearizability against the unbounded FIFO
	var ops []porcupine.Operation
	for t, prog := range c.Programs {
		for i, op := range prog {
			r := recs[t][i]
			if !r.Started {
				continue
			}
			ret := int64(r.Ret)
			if !r.Done {
				ret = enga.Infinity
			}
			o := porcupine.Operation{ClientId: t, Call: int64(r.Call), Return: ret}
			switch op.Op {
			case "Push":
				if r.Done {
					o.Input, o.Output = enga.QIn{Kind: enga.QPush, V: op.V}, enga.QOut{OK: true}
				} else {
					o.Input, o.Output = enga.QIn{Kind: enga.QPushMaybe, V: op.V}, enga.QOut{}
				}
			case "Pop", "PopWait":
				if !r.Done {
					o.Input, o.Output = enga.QIn{Kind: enga.QPopMaybe}, enga.QOut{}
				} else if r.OK {
					o.Input, o.Output = enga.QIn{Kind: enga.QPop}, enga.QOut{OK: true, V: r.V}
				} else {
					// a failed Pop is only constrained when nothing overlapped it; a timed-out
					// PopWait made several attempts and is only constrained likewise
					if enga.Overlapped(recs, t, i) {
						continue
					}
					o.Input, o.Output = enga.QIn{Kind: enga.QPop}, enga.QOut{OK: false}
				}
			case "Len":
				if !r.Done || enga.Overlapped(recs, t, i) {
					continue
				}
				o.Input, o.Output = enga.QIn{Kind: enga.QLen}, enga.QOut{V: r.V}
			case "Fresh":
				continue // another list: not part of this list's history
			case "Drain":
				if !r.Done {
					continue
				}
				// the drain is a sequence of pops by the probe; expand with consecutive stamps
				// inside the drain's own interval is not possible (one stamp pair), so model
				// it as ordered pops sharing the interval: porcupine orders same-client ops by
				// their intervals only, so give each its own sub-interval.
				span := int64(r.Ret) - int64(r.Call)
				_ = span
				for j, v := range r.Vs {
					ops = append(ops, porcupine.Operation{ClientId: t, Call: int64(r.Call)*1000 + int64(j)*2, Return: int64(r.Call)*1000 + int64(j)*2 + 1,
						Input: enga.QIn{Kind: enga.QPop}, Output: enga.QOut{OK: true, V: v}})
				}
				continue
			}
			o.Call *= 1000
			if o.Return != enga.Infinity {
				o.Return *= 1000
			}
			ops = append(ops, o)
		}
	}
	if len(x.init) > 8 {
		// long initial content: the FIFO clauses are checked by conservation and the probes
		return nil
	}
	if len(ops) > 28 {
		run.Out.Probes["history_too_long_for_linearizability_check"]++
	}
	if len(ops) > 0 && len(ops) <= 28 {
		switch enga.CheckLin(enga.QueueModel(-1, x.init), ops) {
		case porcupine.Ok:
			run.Out.PorcOK++
		case porcupine.Unknown:
			run.Out.PorcUnknown++
		case porcupine.Illegal:
			run.Out.PorcIllegal++
			return &sim.Violation{Class: "not_linearizable", Site: "listz.(*SyncList)", Detail: "history has no linearization as a FIFO queue"}
		}
	}
	return nil
}

// longLife (thorough tier, non-race build, VERIF_C01_WRAP=<result file>; the variable name is
// shared with C01): one list lives through 2^32+8 REAL push/pop pairs - past every 32-bit
// boundary an implementation might keep its counters in - and is then driven against a slice
// model.  About four minutes on one core.
// bigBacklog: the list is unbounded - 2^24+5 values stored at once (no popper running), then
// taken out again in order.  Runs in a goroutine of its own so that a Push that never returns is
// reported instead of hanging the check.
func bigBacklog() string {
	l := listz.NewSync[int]()
	const n = 1<<24 + 5
	done := make(chan string, 1)
	var stored int64
	go func() {
		for i := 0; i < n; i++ {
			l.Push(i)
			atomic.StoreInt64(&stored, int64(i+1))
		}
		if L := l.Len(); L != n {
			done <- fmt.Sprintf("big backlog: %d values pushed, none popped, nothing in flight: Len() = %d", n, L)
			return
		}
		for i := 0; i < n; i++ {
			if v, ok := l.Pop(); !ok || v != i {
				done <- fmt.Sprintf("big backlog: Pop number %d of %d returned (%d,%v)", i+1, n, v, ok)
				return
			}
		}
		if L := l.Len(); L != 0 {
			done <- fmt.Sprintf("big backlog: everything popped again: Len() = %d", L)
			return
		}
		done <- ""
	}()
	select {
	case f := <-done:
		return f
	case <-time.After(180 * time.Second):
		return fmt.Sprintf("big backlog: a Push (or Pop) has not returned for minutes with %d values stored and nobody else using the list", atomic.LoadInt64(&stored))
	}
}

func longLife(path string) {
	type result struct {
		Pairs       uint64  `json:"pairs"`
		AfterOps    int     `json:"ops_after_the_long_life"`
		Failure     string  `json:"failure,omitempty"`
		WallSeconds float64 `json:"wall_s"`
	}
	start := time.Now()
	res := result{}
	res.Failure = bigBacklog()
	l := listz.NewSync[int]()
	n := uint64(1)<<32 + 8
	if v, err := strconv.ParseUint(os.Getenv("VERIF_LONGLIFE_PAIRS"), 10, 64); err == nil && v > 0 {
		n = v // (for trying the other phases out without the long wait)
	}
	for i := uint64(0); i < n && res.Failure == ""; i++ {
		l.Push(int(i))
		v, ok := l.Pop()
		if !ok || v != int(i) {
			res.Failure = fmt.Sprintf("Pop at pair %d returned (%d,%v)", i, v, ok)
			break
		}
		if i&(1<<28-1) == 0 {
			if L := l.Len(); L != 0 {
				res.Failure = fmt.Sprintf("after %d pairs, nothing stored, nothing in flight: Len() = %d", i+1, L)
				break
			}
		}
	}
	res.Pairs = n
	var model []int
	next := 1
	for step := 0; step < 64 && res.Failure == ""; step++ {
		for j := 0; j < step%5+1; j++ {
			l.Push(next)
			model = append(model, next)
			next++
			res.AfterOps++
		}
		if L := l.Len(); L != len(model) {
			res.Failure = fmt.Sprintf("after the long life, step %d: Len() = %d, %d values stored", step, L, len(model))
			break
		}
		for j := 0; j < step%4+1 && res.Failure == ""; j++ {
			v, ok := l.Pop()
			if ok != (len(model) > 0) || (ok && v != model[0]) {
				res.Failure = fmt.Sprintf("after the long life, step %d: Pop = (%d,%v), model %v", step, v, ok, model)
				break
			}
			if ok {
				model = model[1:]
			}
			res.AfterOps++
		}
	}
	res.WallSeconds = time.Since(start).Seconds()
	sim.WriteJSON(path, res)
}

func main() {
	if p := os.Getenv("VERIF_C01_WRAP"); p != "" {
		longLife(p)
		return
	}
	enga.Main(&enga.Spec{ID: "C11", Gen: gen, New: build, Check: check,
		// Push waits for in-flight pushes and PopWait(<0) for a value; everything else must finish by itself
		Bounded: func(op sim.Op) bool { return op.Op != "Push" && !(op.Op == "PopWait" && op.D < 0) }})
}

// onlyIndefiniteWaits: every call that was started and has not returned is a PopWait without a
// deadline (and there is at least one).
func onlyIndefiniteWaits(c *sim.Case, recs [][]sim.Rec, res *core.Result) bool {
	n := 0
	for _, t := range res.Unfinished {
		for i, op := range c.Programs[t] {
			if r := recs[t][i]; r.Started && !r.Done {
				if op.Op != "PopWait" || op.D >= 0 {
					return false
				}
				n++
			}
		}
	}
	return n > 0
}
