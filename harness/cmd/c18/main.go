// C18 — Knapsack, subset-sum solvers and maximal-clique enumeration are exact (Engine C).
//
// What is simulated is narrow and stated plainly: Go's randomised map iteration order inside
// FindDpSolvers (whose overshoot bookkeeping depends on it), Best*, and GetMaximalCliques is
// owned by the simulator (smap: seeded permutation, ascending, descending).  Everything else
// is generated input checked against brute force over all subsets / vertex sets.
package main

import (
	"fmt"
	"math"
	"sort"
	"strconv"
	"strings"

	"harness/engc"
	"harness/sim"

	"github.com/welllog/golib/algz"
	"github.com/welllog/golib/zzsim/core"
	"github.com/welllog/golib/zzsim/smap"
)

var scenNames = []string{"knapsack", "dp_solvers", "cliques"}

func gen(r *sim.Rng, tier string) *sim.Case {
	c := &sim.Case{Params: map[string]int{}}
	p := c.Params
	p["scen"] = r.Pick(3, 4, 3)
	p["maporder"] = r.Pick(6, 1, 1) // 0 seeded permutation, 1 ascending, 2 descending
	maxN := 10
	if tier == "thorough" {
		maxN = 12
	}
	switch p["scen"] {
	case 0, 1:
		n := r.N(maxN + 1)
		if r.Pct(2) {
			n = r.Range(13, 17) // rare large instance: 2^17 subsets are still enumerable
		}
		if r.Pct(1) {
			n = r.Range(18, 40) // rarer: beyond enumeration; the oracle is an independent DP
		}
		wdom := []int{3, 6, 12, 30}[r.N(4)] // small domains: many equal weights and values
		if r.Pct(4) {
			wdom = []int{300, 2000, 5000}[r.N(3)] // rare: big weights, big limits
		}
		vdom := []int{2, 5, 20}[r.N(3)]
		sum := 0
		for i := 0; i < n; i++ {
			w := r.N(wdom + 1)
			if p["scen"] == 1 {
				w = 1 + r.N(wdom)
			}
			c.Ops = append(c.Ops, sim.Op{Op: "Item", K: w, V: 1 + r.N(vdom)})
			sum += w
		}
		p["limit"] = r.N(sum + 3)
		if r.Pct(15) {
			p["limit"] = 0
		}
		if r.Pct(2) && n >= 1 && n <= 12 && p["limit"] > 0 {
			// the same instance in other units: every weight times g, the limit between two
			// multiples of g, and (often) one more item that is over the limit by less than g.
			// Large limits (tens to hundreds of thousands) with weights that share a divisor.
			g := []int{64, 1024, 4096, 65536}[r.N(4)]
			if g*p["limit"] > 160000 {
				g = 160000 / p["limit"]
			}
			if g >= 2 {
				for i := range c.Ops {
					c.Ops[i].K *= g
				}
				p["limit"] = p["limit"]*g + r.N(g)
				if r.Pct(60) {
					c.Ops = append(c.Ops, sim.Op{Op: "Item", K: p["limit"] + 1 + r.N(g), V: 1 + vdom + r.N(vdom+3)})
				}
				p["scaled"] = g
			}
		}
		p["breaker"] = r.Pick(6, 6, 6, 2, 1) // 0 none, 1 prefer fewer items, 2 prefer new, 3 prefer fewer and call the package from inside, 4 an explicit nil (a forwarded optional callback)
		if r.Pct(15) {
			p["again"] = 1 // an unrelated second call before the first result is read
		}
		if r.Pct(10) {
			p["prepanic"] = 1 + r.N(2*n+6) // an earlier call whose callback panicked at its k-th invocation
		}
		if p["scen"] == 0 && r.Pct(4) {
			// items that can never fit, as heavy as an int can say (their weights must not be
			// added up carelessly)
			for k := r.Range(1, 2); k > 0; k-- {
				// (D names the weight: numbers beyond 2^53 do not survive the JSON of a replay file)
				c.Ops = append(c.Ops, sim.Op{Op: "Item", D: 1 + r.N(4), V: 1 + vdom + r.N(5)})
			}
			p["huge"] = 1
		}
		p["over"] = r.N(2)
		p["elem"] = r.Pick(8, 3, 2, 2) // element type: item, twelve-word struct, pointer, index
	case 2:
		nv := r.Range(1, 9)
		if r.Pct(3) {
			nv = r.Range(10, 13)
		}
		p["nv"] = nv
		if r.Pct(15) {
			p["again"] = 1
		}
		p["vt"] = r.N(5) // vertex type: int, string, struct, labels with spaces, struct with a non-unique String()
		if r.Pct(2) {
			p["bigg"] = 1 // hundreds of vertices, structured (the answer is known by construction)
		}
		if p["vt"] != 3 {
			if r.Pct(12) && nv <= 9 {
				p["blocks"] = (32+nv-1)/nv + r.N(2) // dozens of vertices: disjoint copies of the small graph
			}
			p["reuse"] = r.Pick(12, 2, 1, 2) // the Graph value had an earlier life / was queried before it grew
		}
		kind := r.Pick(4, 2, 1, 1)
		p["gkind"] = kind
		dens := r.Range(5, 95)
		for a := 0; a < nv; a++ {
			for b := a + 1; b < nv; b++ {
				var e bool
				switch kind {
				case 0:
					e = r.Pct(dens)
				case 1: // disjoint cliques
					e = a%3 == b%3
				case 2: // complete
					e = true
				default: // edgeless
					e = false
				}
				if e {
					c.Ops = append(c.Ops, sim.Op{Op: "Edge", K: a, V: b})
				}
			}
		}
	}
	c.EnvSeed = r.U64() >> 12
	return c
}

func viol(class, site, format string, a ...any) *sim.Violation {
	return &sim.Violation{Class: class, Site: "algz." + site, Detail: fmt.Sprintf(format, a...)}
}

type item struct{ idx, w, v int }

// The element type of the main call is chosen by the case (algz is generic; a type-dependent
// shortcut - by size, by pointer-ness - must not change the answer): the three-word item itself,
// a twelve-word struct, a pointer, an index into a table.
type wideItem struct {
	pad0 [4]int
	it   item
	pad1 [5]int
}

func knapsackAs[T any](limit int, its []item, to func(item) T, back func(T) item, bk int) []item {
	ts := make([]T, len(its))
	for i, it := range its {
		ts[i] = to(it)
	}
	sel := algz.Knapsack(limit, ts, func(t T) int { return back(t).w }, func(t T) int { return back(t).v }, breakerOfT[T](bk)...)
	if sel == nil {
		return nil
	}
	out := make([]item, len(sel))
	for i, t := range sel {
		out[i] = back(t)
	}
	return out
}

func dpAs[T any](limit int, its []item, over bool, to func(item) T, back func(T) item, bk int) algz.DpSolvers[item] {
	ts := make([]T, len(its))
	for i, it := range its {
		ts[i] = to(it)
	}
	d := algz.FindDpSolvers(limit, ts, func(t T) int { return back(t).w }, over, breakerOfT[T](bk)...)
	if d == nil {
		return nil
	}
	out := algz.DpSolvers[item]{}
	for k, sel := range d {
		var conv []item
		if sel != nil {
			conv = make([]item, len(sel))
			for i, t := range sel {
				conv[i] = back(t)
			}
		}
		out[k] = conv
	}
	return out
}

func knapsackOf(c *sim.Case, limit int, its []item) []item {
	bk := c.P("breaker")
	switch c.P("elem") {
	case 1:
		return knapsackAs(limit, its, func(i item) wideItem { return wideItem{it: i} }, func(w wideItem) item { return w.it }, bk)
	case 2:
		return knapsackAs(limit, its, func(i item) *item { return &i }, func(p *item) item { return *p }, bk)
	case 3:
		return knapsackAs(limit, its, func(i item) int { return i.idx }, func(k int) item { return its[k] }, bk)
	}
	return algz.Knapsack(limit, its, func(i item) int { return i.w }, func(i item) int { return i.v }, breakerOf(bk)...)
}

func dpOf(c *sim.Case, limit int, its []item, over bool) algz.DpSolvers[item] {
	bk := c.P("breaker")
	switch c.P("elem") {
	case 1:
		return dpAs(limit, its, over, func(i item) wideItem { return wideItem{it: i} }, func(w wideItem) item { return w.it }, bk)
	case 2:
		return dpAs(limit, its, over, func(i item) *item { return &i }, func(p *item) item { return *p }, bk)
	case 3:
		return dpAs(limit, its, over, func(i item) int { return i.idx }, func(k int) item { return its[k] }, bk)
	}
	return algz.FindDpSolvers(limit, its, func(i item) int { return i.w }, over, breakerOf(bk)...)
}

func exec(c *sim.Case, out *sim.WorkerOut) (*sim.Violation, bool) {
	p := c.Params
	core.EnvSeed(c.EnvSeed)
	core.ProbesReset()
	smap.Mode = p["maporder"]
	dg := engc.NewDigest()
	var v *sim.Violation
	scen := p["scen"]
	if scen < 0 || scen > 2 {
		scen = 0
	}
	site := []string{"Knapsack", "FindDpSolvers", "(*Graph).GetMaximalCliques"}[scen]
	pv := engc.Call("algz."+site, func() {
		switch scen {
		case 0:
			v = knap(c, out, dg)
		case 1:
			v = solvers(c, out, dg)
		case 2:
			v = cliques(c, out, dg)
		}
	})
	if pv != nil {
		v = pv
	}
	ranges := int(core.Probes[core.PMapRange])
	out.Faults["map_range_order_decided_by_simulator"] += ranges
	if c.P("scaled") > 1 {
		out.Probes["instance_in_other_units_(weights_share_a_divisor,_large_limit)"]++
	}
	out.Probes["scenario:"+scenNames[scen]]++
	c.LogHash = dg.Hex()
	// non-trivial: at least one map range with >= 2 entries was ordered by the simulator
	return v, ranges > 0 && core.EnvDraws() > 0 || (ranges > 0 && p["maporder"] != 0)
}

func items(c *sim.Case) []item {
	var its []item
	for i, op := range c.Ops {
		if op.Op != "Item" {
			continue
		}
		w, v := op.K, op.V
		if w < 0 {
			w = 0
		}
		if op.D > 0 {
			lim := c.P("limit")
			if lim < 0 {
				lim = 0
			}
			w = []int{math.MaxInt, math.MaxInt - 1, math.MaxInt/2 + 1, math.MaxInt - lim}[(op.D-1)%4]
		}
		if v < 1 {
			v = 1
		}
		its = append(its, item{i, w, v})
	}
	for i := range its {
		its[i].idx = i
	}
	return its
}

func distinct(sel []item, site string) *sim.Violation {
	seen := map[int]bool{}
	for _, it := range sel {
		if seen[it.idx] {
			return viol("item_used_twice", site, "item #%d (w=%d v=%d) appears twice in a selection", it.idx, it.w, it.v)
		}
		seen[it.idx] = true
	}
	return nil
}

func breakerOf(k int) []func(old, new []item) bool { return breakerOfT[item](k) }

func breakerOfT[T any](k int) []func(old, new []T) bool {
	switch k {
	case 1:
		return []func(old, new []T) bool{func(o, n []T) bool { return len(n) < len(o) }}
	case 2:
		return []func(old, new []T) bool{func(o, n []T) bool { return true }}
	case 3:
		// a tie-breaker that itself uses the package (calls share nothing)
		return []func(old, new []T) bool{func(o, n []T) bool {
			small := []item{{0, 2, 3}, {1, 3, 4}, {2, 4, 5}, {3, 5, 6}}
			s := algz.Knapsack(5, small, func(i item) int { return i.w }, func(i item) int { return i.v })
			d := algz.FindDpSolvers(6, small, func(i item) int { return i.w }, true)
			_ = d.Best(6)
			return len(n) < len(o) && len(s) == 2
		}}
	case 4:
		// the caller forwards its own optional callback, which is nil: same as none
		return []func(old, new []T) bool{nil}
	}
	return nil
}

// panickedCall: an earlier, unrelated call on other items whose callback panicked half way and
// whose caller recovered (a request handler that carries on).  What that call left behind must
// not leak into the next one.
func panickedCall(c *sim.Case, out *sim.WorkerOut, its []item, limit int) {
	k := c.P("prepanic")
	if k == 0 {
		return
	}
	out.Faults["callback_panicked_in_an_earlier_call_(recovered)"]++
	other := make([]item, len(its)+2)
	for i := range other {
		other[i] = item{idx: 100 + i, w: 1 + (i*7+k)%(limit+2), v: 500 + 37*i}
	}
	calls := 0
	boom := func(i item) int {
		calls++
		if calls == k {
			panic("callback failed")
		}
		return i.v
	}
	wf := func(i item) int { return i.w }
	func() {
		defer func() { recover() }()
		if k%2 == 0 {
			_ = algz.Knapsack(limit+1, other, wf, boom, breakerOf(c.P("breaker"))...)
		} else {
			_ = algz.FindDpSolvers(limit+1, other, boom, c.P("over") == 1, breakerOf(c.P("breaker"))...)
		}
	}()
}

// secondCall makes another, unrelated call between a call and the reading of its result: the
// first result must not live in memory the package hands out again.
func secondCall(c *sim.Case, out *sim.WorkerOut, its []item, limit int) {
	if c.P("again") != 1 {
		return
	}
	out.Probes["second_call_before_first_result_is_read"]++
	other := make([]item, len(its))
	for i := range its {
		o := its[len(its)-1-i]
		other[i] = item{idx: i, w: satAdd(o.w, 1), v: o.v + 2}
	}
	wf, vf := func(i item) int { return i.w }, func(i item) int { return i.v }
	_ = algz.Knapsack(limit+3, other, wf, vf, breakerOf(c.P("breaker"))...)
	d := algz.FindDpSolvers(limit+3, other, wf, c.P("over") == 1, breakerOf(c.P("breaker"))...)
	_ = d.Best(limit)
	var g algz.Graph[int]
	for i := 0; i < 5; i++ {
		g.AddUndirectedEdge(i, (i+1)%5)
		g.AddUndirectedEdge(i, (i+2)%5)
	}
	_ = g.GetMaximalCliques()
}

// satAdd adds non-negative weights without wrapping around (items may weigh math.MaxInt).
func satAdd(a, b int) int {
	if a > math.MaxInt-b {
		return math.MaxInt
	}
	return a + b
}

func knap(c *sim.Case, out *sim.WorkerOut, dg *engc.Digest) *sim.Violation {
	its := items(c)
	limit := c.P("limit")
	if limit < 0 {
		limit = 0
	}
	panickedCall(c, out, its, limit)
	sel := knapsackOf(c, limit, its)
	if c.P("elem") > 0 {
		out.Probes["element_type_other_than_the_plain_item"]++
	}
	secondCall(c, out, its, limit)
	if v := distinct(sel, "Knapsack"); v != nil {
		return v
	}
	tw, tv := 0, 0
	for _, it := range sel {
		if it.idx >= len(its) || its[it.idx] != it {
			return viol("item_invented", "Knapsack", "selection contains %+v which is not an input item", it)
		}
		tw = satAdd(tw, it.w)
		tv += it.v
	}
	dg.Add(tw, tv)
	if tw > limit {
		return viol("over_limit", "Knapsack", "selection weighs %d, limit %d", tw, limit)
	}
	best := 0
	how := "brute force over all subsets"
	if len(its) <= 17 {
		for m := 0; m < 1<<len(its); m++ {
			w, v := 0, 0
			for i, it := range its {
				if m&(1<<i) != 0 {
					w = satAdd(w, it.w)
					v += it.v
				}
			}
			if w <= limit && v > best {
				best = v
			}
		}
	} else {
		// too many items to enumerate: an independent textbook DP over capacities
		how = "an independent DP over capacities"
		tab := make([]int, limit+1)
		for _, it := range its {
			for cpt := limit; cpt >= it.w; cpt-- {
				if v := tab[cpt-it.w] + it.v; v > tab[cpt] {
					tab[cpt] = v
				}
			}
		}
		best = tab[limit]
	}
	if tv != best {
		return viol("not_optimal", "Knapsack", "selection has value %d, %s finds %d (%d items, limit %d)", tv, how, best, len(its), limit)
	}
	return nil
}

func solvers(c *sim.Case, out *sim.WorkerOut, dg *engc.Digest) *sim.Violation {
	its := items(c)
	limit := c.P("limit")
	if limit < 0 {
		limit = 0
	}
	over := c.P("over") == 1
	panickedCall(c, out, its, limit)
	dp := dpOf(c, limit, its, over)
	if c.P("elem") > 0 {
		out.Probes["element_type_other_than_the_plain_item"]++
	}
	secondCall(c, out, its, limit)
	// brute force: attainable totals
	att := map[int]bool{}
	if len(its) <= 17 {
		for m := 0; m < 1<<len(its); m++ {
			w := 0
			for i, it := range its {
				if m&(1<<i) != 0 {
					w += it.w
				}
			}
			att[w] = true
		}
	} else {
		// independent reachability DP over sums
		att[0] = true
		for _, it := range its {
			var add []int
			for t := range att {
				add = append(add, t+it.w)
			}
			for _, t := range add {
				att[t] = true
			}
		}
	}
	minOver := -1
	maxUnder := 0
	for t := range att {
		if t > limit && (minOver < 0 || t < minOver) {
			minOver = t
		}
		if t <= limit && t > maxUnder {
			maxUnder = t
		}
	}
	keys := make([]int, 0, len(dp))
	for k := range dp {
		keys = append(keys, k)
	}
	sort.Ints(keys)
	dg.Add(keys)
	for _, k := range keys {
		sel := dp[k]
		if v := distinct(sel, "FindDpSolvers"); v != nil {
			return v
		}
		s := 0
		for _, it := range sel {
			if it.idx >= len(its) || its[it.idx] != it {
				return viol("item_invented", "FindDpSolvers", "selection for total %d contains %+v which is not an input item", k, it)
			}
			s += it.w
		}
		if s != k {
			return viol("wrong_total", "FindDpSolvers", "entry for total %d sums to %d (items %v)", k, s, sel)
		}
		if k > limit && !over {
			return viol("over_limit", "FindDpSolvers", "total %d above maxValue %d although overflow is not allowed", k, limit)
		}
	}
	for t := range att {
		if t <= limit {
			if _, ok := dp[t]; !ok {
				return viol("total_missing", "FindDpSolvers", "total %d <= maxValue %d is attainable but has no entry (keys %v)", t, limit, keys)
			}
		}
	}
	if over && minOver >= 0 {
		if _, ok := dp[minOver]; !ok {
			return viol("total_missing", "FindDpSolvers", "smallest attainable total above maxValue %d is %d but it has no entry (keys %v)", limit, minOver, keys)
		}
		out.Probes["overshoot_present"]++
		extra := 0
		for _, k := range keys {
			if k > limit && k != minOver {
				extra++
			}
		}
		if extra > 0 {
			out.Probes["order_dependent_extra_overshoot_entries"]++
		}
	}
	// Best: largest attainable total <= maxValue
	sum := func(sel []item) int {
		s := 0
		for _, it := range sel {
			s += it.w
		}
		return s
	}
	if got := sum(dp.Best(limit)); got != maxUnder {
		return viol("not_optimal", "DpSolvers.Best", "Best(%d) sums to %d, largest attainable total <= maxValue is %d", limit, got, maxUnder)
	}
	// BestAllowMinOverflow: exact if attainable, else the smallest overshoot (when one exists)
	got := sum(dp.BestAllowMinOverflow(limit))
	want := maxUnder
	if !att[limit] && over && minOver >= 0 {
		want = minOver
	}
	if over || att[limit] {
		if got != want {
			return viol("not_optimal", "DpSolvers.BestAllowMinOverflow", "BestAllowMinOverflow(%d) sums to %d, expected %d (exact attainable: %v, smallest overshoot: %d)", limit, got, want, att[limit], minOver)
		}
	}
	// queries below the limit use the same table
	for _, q := range []int{0, limit / 2, limit - 1} {
		if q < 0 {
			continue
		}
		mu := 0
		for t := range att {
			if t <= q && t > mu {
				mu = t
			}
		}
		if g := sum(dp.Best(q)); g != mu {
			return viol("not_optimal", "DpSolvers.Best", "Best(%d) sums to %d, largest attainable total <= %d is %d", q, g, q, mu)
		}
	}
	return nil
}

type vkey struct {
	A int
	B string
}

// cliques runs the clique scenario with one of several vertex types (vt): the graph is generic.
// cliquesBig: hundreds of vertices with a known answer - the disjoint union of complete bipartite
// graphs (every edge is a maximal clique; their vertices are the dense ones), cycles, paths,
// small complete graphs and isolated vertices, with the vertex numbers shuffled.
func cliquesBig(c *sim.Case, out *sim.WorkerOut, dg *engc.Digest) *sim.Violation {
	r := sim.NewRng(c.EnvSeed ^ 0xb16)
	target := 256 + r.N(200)
	var comps [][2]int // kind, size (bipartite: size = a<<8 | b)
	total := 0
	for total < target {
		var k, n int
		switch k = r.Pick(3, 3, 2, 2, 2); k {
		case 0: // complete bipartite
			a, b := r.Range(8, 64), r.Range(8, 64)
			n = a + b
			comps = append(comps, [2]int{0, a<<8 | b})
		case 1: // cycle
			n = r.Range(4, 130)
			comps = append(comps, [2]int{1, n})
		case 2: // path
			n = r.Range(2, 40)
			comps = append(comps, [2]int{2, n})
		case 3: // small complete graph
			n = r.Range(3, 7)
			comps = append(comps, [2]int{3, n})
		default: // isolated vertices
			n = r.Range(1, 10)
			comps = append(comps, [2]int{4, n})
		}
		total += n
	}
	perm := make([]int, total)
	for i := range perm {
		perm[i] = i
	}
	for i := total - 1; i > 0; i-- {
		j := r.N(i + 1)
		perm[i], perm[j] = perm[j], perm[i]
	}
	var g algz.Graph[int]
	want := map[string]bool{}
	key := func(vs ...int) string {
		sort.Ints(vs)
		return fmt.Sprint(vs)
	}
	base := 0
	for _, cp := range comps {
		id := func(i int) int { return perm[base+i] }
		switch cp[0] {
		case 0:
			a, b := cp[1]>>8, cp[1]&255
			for i := 0; i < a; i++ {
				for j := 0; j < b; j++ {
					g.AddUndirectedEdge(id(i), id(a+j))
					want[key(id(i), id(a+j))] = true
				}
			}
			base += a + b
		case 1:
			for i := 0; i < cp[1]; i++ {
				g.AddUndirectedEdge(id(i), id((i+1)%cp[1]))
				want[key(id(i), id((i+1)%cp[1]))] = true
			}
			base += cp[1]
		case 2:
			for i := 0; i+1 < cp[1]; i++ {
				g.AddUndirectedEdge(id(i), id(i+1))
				want[key(id(i), id(i+1))] = true
			}
			base += cp[1]
		case 3:
			var all []int
			for i := 0; i < cp[1]; i++ {
				all = append(all, id(i))
				for j := i + 1; j < cp[1]; j++ {
					g.AddUndirectedEdge(id(i), id(j))
				}
			}
			want[key(all...)] = true
			base += cp[1]
		default:
			for i := 0; i < cp[1]; i++ {
				g.AddNode(id(i))
				want[key(id(i))] = true
			}
			base += cp[1]
		}
	}
	out.Probes["graph_with_hundreds_of_vertices_(dense_and_sparse_components)"]++
	got := g.GetMaximalCliques()
	seen := map[string]bool{}
	for _, cl := range got {
		k := key(append([]int{}, cl...)...)
		if seen[k] {
			return viol("clique_duplicated", "(*Graph).GetMaximalCliques", "clique %v returned twice (%d vertices)", cl, total)
		}
		seen[k] = true
		if !want[k] {
			return viol("clique_wrong", "(*Graph).GetMaximalCliques", "%v is not a maximal clique of the graph (%d vertices: complete bipartite parts, cycles, paths, small complete graphs, isolated vertices)", cl, total)
		}
	}
	for k := range want {
		if !seen[k] {
			return viol("clique_missing", "(*Graph).GetMaximalCliques", "maximal clique %s was not returned (%d returned, %d exist, %d vertices)", k, len(got), len(want), total)
		}
	}
	dg.Add(len(got))
	return nil
}

func cliques(c *sim.Case, out *sim.WorkerOut, dg *engc.Digest) *sim.Violation {
	if c.P("bigg") == 1 {
		return cliquesBig(c, out, dg)
	}
	switch c.P("vt") {
	case 1:
		return cliquesT(c, out, dg, func(i int) string { return "v" + strconv.Itoa(i) }, func(s string) int {
			n, err := strconv.Atoi(strings.TrimPrefix(s, "v"))
			if err != nil {
				return -1
			}
			return n
		})
	case 2:
		return cliquesT(c, out, dg, func(i int) vkey { return vkey{i, "x" + strconv.Itoa(i%3)} }, func(k vkey) int {
			if k.B != "x"+strconv.Itoa(k.A%3) {
				return -1
			}
			return k.A
		})
	case 3:
		// human labels: some contain spaces, so that different vertex sets can print alike
		return cliquesT(c, out, dg, func(i int) string { return labels[i%len(labels)] }, func(s string) int {
			for i, l := range labels {
				if l == s {
					return i
				}
			}
			return -1
		})
	case 4:
		// vertices with a String method whose result is not unique (two vertices share a name)
		return cliquesT(c, out, dg, func(i int) named { return named{i, "n" + strconv.Itoa(i/2)} }, func(k named) int {
			if k.Name != "n"+strconv.Itoa(k.ID/2) {
				return -1
			}
			return k.ID
		})
	}
	return cliquesT(c, out, dg, func(i int) int { return i }, func(i int) int { return i })
}

var labels = []string{"a", "b", "a b", "c", "b c", "a b c", "d", "c d", "e", "d e", "f", "e f", "g"}

type named struct {
	ID   int
	Name string
}

func (n named) String() string { return n.Name }

func cliquesT[T comparable](c *sim.Case, out *sim.WorkerOut, dg *engc.Digest, mk func(int) T, unmk func(T) int) *sim.Violation {
	nv := c.P("nv")
	if nv < 1 {
		nv = 1
	}
	if nv > 13 {
		nv = 13
	}
	// blocks > 1: the graph is the disjoint union of that many copies of the small graph (vertex
	// b*nv+i is vertex i of copy b): dozens of vertices, and the maximal cliques are still known
	// exactly - those of the small graph, once per copy
	blocks := c.P("blocks")
	if blocks < 1 {
		blocks = 1
	}
	if blocks > 8 {
		blocks = 8
	}
	var g algz.Graph[T]
	switch c.P("reuse") {
	case 1:
		// the instance had an earlier life: as many vertices, other edges (a ring), queried,
		// then initialised again
		for v := 0; v < nv*blocks; v++ {
			g.AddNode(mk(1000 + v))
			if nv*blocks > 1 { // (no self-loop: simple graphs only)
				g.AddUndirectedEdge(mk(1000+v), mk(1000+(v+1)%(nv*blocks)))
			}
		}
		_ = g.GetMaximalCliques()
		g.Init(0)
		out.Probes["graph_instance_reused_after_Init"]++
	case 2:
		// ... or its node map is simply replaced
		for v := 0; v < nv*blocks; v++ {
			g.AddNode(mk(1000 + v))
		}
		_ = g.GetMaximalCliques()
		g.Nodes = map[T]map[T]struct{}{}
		out.Probes["graph_instance_reused_after_Init"]++
	}
	adj := make([][]bool, nv)
	for i := range adj {
		adj[i] = make([]bool, nv)
	}
	for v := 0; v < nv*blocks; v++ {
		g.AddNode(mk(v)) // isolated vertices included
	}
	if c.P("reuse") == 3 {
		_ = g.GetMaximalCliques() // queried before the edges arrive (grow-only use)
		out.Probes["graph_queried_then_grown"]++
	}
	for _, op := range c.Ops {
		if op.Op != "Edge" || op.K == op.V || op.K < 0 || op.V < 0 || op.K >= nv || op.V >= nv {
			continue
		}
		for b := 0; b < blocks; b++ {
			g.AddUndirectedEdge(mk(b*nv+op.K), mk(b*nv+op.V))
		}
		adj[op.K][op.V], adj[op.V][op.K] = true, true
	}
	if nv*blocks >= 32 {
		out.Probes["graph_with_32+_vertices"]++
	}
	got := g.GetMaximalCliques()
	secondCall(c, out, nil, 4)
	// brute force
	isClique := func(m int) bool {
		for a := 0; a < nv; a++ {
			if m&(1<<a) == 0 {
				continue
			}
			for b := a + 1; b < nv; b++ {
				if m&(1<<b) != 0 && !adj[a][b] {
					return false
				}
			}
		}
		return true
	}
	want := map[int]bool{}
	for m := 1; m < 1<<nv; m++ {
		if !isClique(m) {
			continue
		}
		maximal := true
		for x := 0; x < nv && maximal; x++ {
			if m&(1<<x) == 0 && isClique(m|1<<x) {
				maximal = false
			}
		}
		if maximal {
			want[m] = true
		}
	}
	seen := map[[2]int]bool{}
	for _, cl := range got {
		m, blk := 0, -1
		for _, xt := range cl {
			x := unmk(xt)
			if x < 0 || x >= nv*blocks {
				return viol("vertex_invented", "(*Graph).GetMaximalCliques", "clique %v contains a vertex that is not in the graph", cl)
			}
			if blk >= 0 && x/nv != blk {
				return viol("clique_wrong", "(*Graph).GetMaximalCliques", "%v is not a clique of the graph (its vertices lie in different components)", cl)
			}
			blk, x = x/nv, x%nv
			if m&(1<<x) != 0 {
				return viol("clique_wrong", "(*Graph).GetMaximalCliques", "clique %v lists a vertex twice", cl)
			}
			m |= 1 << x
		}
		if seen[[2]int{blk, m}] {
			return viol("clique_duplicated", "(*Graph).GetMaximalCliques", "clique %v returned twice", cl)
		}
		seen[[2]int{blk, m}] = true
		if !want[m] {
			return viol("clique_wrong", "(*Graph).GetMaximalCliques", "%v is not a maximal clique of the graph", cl)
		}
	}
	for m := range want {
		for b := 0; b < blocks; b++ {
			if !seen[[2]int{b, m}] {
				return viol("clique_missing", "(*Graph).GetMaximalCliques", "maximal clique with vertex mask %b (component %d of %d) was not returned (%d returned, %d exist)", m, b, blocks, len(got), len(want)*blocks)
			}
		}
	}
	dg.Add(len(got))
	return nil
}

func main() {
	engc.Main(&engc.Spec{ID: "C18", Gen: gen, Exec: exec})
}
