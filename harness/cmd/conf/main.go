// conf — thread-confined instances under the race detector (a companion of the Engine-C checks).
//
// The sequential properties (C02 C03 C09 C18 C20) say how ONE skip list, bitmap, generator or call
// behaves.  A program may well use several of them from several goroutines, each goroutine with
// instances and arguments of its own; then nothing is shared and every one of them must behave as
// the property says.  Package-level state in the code under test (a scratch buffer, a pool, a
// cache) breaks exactly that, and alternating use from one goroutine (the twin instances of the
// Engine-C harnesses) need not show it.
//
// This worker is built with -race from an UNREWRITTEN copy of the tree (no shims: nothing in these
// packages needs a seam here).  Two or three simulated threads run short workloads on private
// instances; the scheduler interleaves them at operation granularity; the hand-off between threads
// is invisible to the race detector, so any access of two threads to the same package-level
// variable without synchronisation of golib's own is reported, whatever the real timing.  Light
// functional checks per operation catch interference that is not a race.
package main

import (
	"bytes"
	"fmt"
	"os"
	"sort"
	"time"

	"harness/enga"
	"harness/sim"

	"github.com/welllog/golib/algz"
	"github.com/welllog/golib/cryptz"
	"github.com/welllog/golib/listz"
	"github.com/welllog/golib/randz"
	"github.com/welllog/golib/setz"
	"github.com/welllog/golib/zzsim/scrand"
)

var prop = os.Getenv("VERIF_CONF_PROP")

type tstate struct {
	// C02
	sl  *listz.SkipList[int, int]
	slc *listz.SkipListWithCmp[int, int]
	slm map[int]int
	// C03
	rb  *setz.RoaringBitmap
	rbm map[uint32]bool
	// C20
	idg *randz.IdGenerator
	sg  *randz.StrGenerator
	cg  *randz.CountGenerator
}

type inst struct {
	st [8]tstate
	// what the threads last told the package-level defaults of randz (which the library makes
	// safe for concurrent use: atomically swapped generators, a locked random source); read
	// and written through shared(), which the race detector does not instrument, so that the
	// bookkeeping neither reports nor hides anything
	defStart int64 // UnixNano of the start time last given to SetIdGeneratorStartTime, 0 = the package's own
	defSet   int   // index of the character set last given to SetStrGeneratorCharSet, -1 = the package's own
}

//go:norace
func (x *inst) shared(start *int64, set *int, write bool) {
	if write {
		if start != nil {
			x.defStart = *start
		}
		if set != nil {
			x.defSet = *set
		}
		return
	}
	if start != nil {
		*start = x.defStart
	}
	if set != nil {
		*set = x.defSet
	}
}

var defSets = []string{randz.CHAR_SET, "abcdef", "xyz0123456789", "αβγδε", "ab\xffc"}

type src struct{ r *sim.Rng }

func (s *src) Int63() int64    { return int64(s.r.U64() >> 1) }
func (s *src) Seed(seed int64) {}

// Do performs one step of thread t's private workload; r.OK=false and r.S carry a complaint.
func (x *inst) Do(t int, op sim.Op) sim.Rec {
	r := sim.Rec{OK: true}
	fail := func(format string, a ...any) {
		if r.OK {
			r.OK = false
			r.S = fmt.Sprintf(format, a...)
		}
	}
	st := &x.st[t]
	rng := sim.NewRng(uint64(op.V)*0x9E3779B97F4A7C15 + uint64(t))
	switch prop {
	case "C02":
		if st.sl == nil {
			st.sl, st.slm = listz.NewSkipList[int, int](), map[int]int{}
			st.slc = listz.NewSkipListWithCmp[int, int](func(a, b int) int { return a - b })
		}
		for i := 0; i < 40; i++ {
			k, v := rng.N(64), t<<20|op.V<<8|i
			switch rng.N(4) {
			case 0, 1:
				st.sl.Set(k, v)
				st.slc.Set(k, v)
				st.slm[k] = v
			case 2:
				_, ok := st.sl.Remove(k)
				_, ok2 := st.slc.Remove(k)
				if _, want := st.slm[k]; ok != want || ok2 != want {
					fail("Remove(%d) = %v / %v, key present = %v", k, ok, ok2, want)
				}
				delete(st.slm, k)
			default:
				got, ok := st.sl.Get(k)
				if want, present := st.slm[k]; ok != present || (ok && got != want) {
					fail("Get(%d) = %d, %v; this thread's list holds %d, %v", k, got, ok, want, present)
				}
			}
		}
		ks := st.sl.Keys()
		if len(ks) != len(st.slm) || !sort.IntsAreSorted(ks) || st.slc.Len() != len(st.slm) {
			fail("Keys() has %d keys (sorted %v), Len of the comparator list %d, this thread's lists hold %d", len(ks), sort.IntsAreSorted(ks), st.slc.Len(), len(st.slm))
		}
	case "C03":
		if st.rb == nil {
			st.rb, st.rbm = &setz.RoaringBitmap{}, map[uint32]bool{}
		}
		hi := uint32(t*4+rng.N(3)) << 16
		switch op.K % 3 {
		case 0: // a run that takes a bucket across the conversion threshold
			base := uint32(rng.N(60000))
			for i := uint32(0); i < 4200; i++ {
				v := hi | (base+i)&0xFFFF
				if st.rb.Add(v) == st.rbm[v] {
					fail("Add(%#x) reported the wrong membership change", v)
				}
				st.rbm[v] = true
			}
		case 1:
			n := 0
			for v := range st.rbm {
				if n++; n > 1500 {
					break
				}
				if !st.rb.Remove(v) {
					fail("Remove(%#x) = false for a member", v)
				}
				delete(st.rbm, v)
			}
		default:
			for i := 0; i < 50; i++ {
				v := hi | uint32(rng.N(1<<16))
				if st.rb.Contains(v) != st.rbm[v] {
					fail("Contains(%#x) = %v, member = %v", v, !st.rbm[v], st.rbm[v])
				}
			}
		}
		n, prev, asc := 0, uint32(0), true
		st.rb.Range(func(v uint32) bool {
			if !st.rbm[v] {
				fail("Range produced %#x, which this thread never added to its bitmap", v)
			}
			if n > 0 && v <= prev {
				asc = false
			}
			prev = v
			n++
			return n <= len(st.rbm)+4
		})
		if n != len(st.rbm) || !asc || st.rb.Len() != len(st.rbm) {
			fail("Range produced %d values (ascending %v), Len() = %d, this thread's bitmap holds %d", n, asc, st.rb.Len(), len(st.rbm))
		}
	case "C09":
		plain, secret, aad := rng.Bytes(rng.N(300)), rng.Bytes(1+rng.N(40)), rng.Bytes(rng.N(20))
		switch op.K % 3 {
		case 0:
			ct, err := cryptz.Encrypt(plain, secret)
			if err != nil {
				fail("Encrypt: %v", err)
				break
			}
			pt, err := cryptz.Decrypt(ct, secret)
			if err != nil || !bytes.Equal(pt, plain) {
				fail("Decrypt(Encrypt(p)) != p: %v", err)
			}
		case 1:
			ct, err := cryptz.GCMEncrypt(plain, secret, aad)
			if err != nil {
				fail("GCMEncrypt: %v", err)
				break
			}
			pt, err := cryptz.GCMDecrypt(ct, secret, aad)
			if err != nil || !bytes.Equal(pt, plain) {
				fail("GCMDecrypt(GCMEncrypt(p)) != p: %v", err)
			}
		default:
			big := rng.Bytes(rng.N(70000))
			var mid, dst bytes.Buffer
			if err := cryptz.EncryptStreamTo(&mid, plainReader{bytes.NewReader(big)}, secret); err != nil {
				fail("EncryptStreamTo: %v", err)
				break
			}
			if err := cryptz.DecryptStreamTo(plainWriter{&dst}, plainReader{bytes.NewReader(mid.Bytes())}, secret); err != nil || !bytes.Equal(dst.Bytes(), big) {
				fail("DecryptStreamTo(EncryptStreamTo(p)) != p: %v", err)
			}
		}
	case "C18":
		type item struct{ w, v int }
		n := 2 + rng.N(7)
		its := make([]item, n)
		for i := range its {
			its[i] = item{1 + rng.N(9), 1 + rng.N(9)}
		}
		limit := rng.N(30)
		switch op.K % 3 {
		case 0:
			sel := algz.Knapsack(limit, its, func(i item) int { return i.w }, func(i item) int { return i.v })
			tw, tv, best := 0, 0, 0
			for _, it := range sel {
				tw += it.w
				tv += it.v
			}
			for m := 0; m < 1<<n; m++ {
				w, v := 0, 0
				for i, it := range its {
					if m&(1<<i) != 0 {
						w += it.w
						v += it.v
					}
				}
				if w <= limit && v > best {
					best = v
				}
			}
			if tw > limit || tv != best {
				fail("Knapsack: selection weighs %d (limit %d) and is worth %d (best %d)", tw, limit, tv, best)
			}
		case 1:
			dp := algz.FindDpSolvers(limit, its, func(i item) int { return i.w }, op.V%2 == 0)
			for total, sel := range dp {
				s := 0
				for _, it := range sel {
					s += it.w
				}
				if s != total {
					fail("FindDpSolvers: the selection stored for total %d adds up to %d", total, s)
				}
			}
		default:
			var g algz.Graph[int]
			nv := 3 + rng.N(5)
			adj := map[[2]int]bool{}
			for i := 0; i < nv; i++ {
				g.AddNode(i)
			}
			for i := 0; i < nv*2; i++ {
				a, b := rng.N(nv), rng.N(nv)
				if a != b {
					g.AddUndirectedEdge(a, b)
					adj[[2]int{a, b}], adj[[2]int{b, a}] = true, true
				}
			}
			for _, cl := range g.GetMaximalCliques() {
				for i := range cl {
					for j := i + 1; j < len(cl); j++ {
						if !adj[[2]int{cl[i], cl[j]}] {
							fail("GetMaximalCliques: %v is not a clique", cl)
						}
					}
				}
			}
		}
	case "C20":
		if st.idg == nil {
			g := randz.NewIdGenerator(time.Now().Add(-time.Hour), 4+t*7)
			st.idg = &g
			sg := randz.NewStrGenerator([]string{"abcdef", "xyz0123456789", "αβγδε"}[t%3], &src{r: sim.NewRng(uint64(t) + 77)})
			st.sg = &sg
			st.cg = &randz.CountGenerator{}
			st.cg.AddRule(100+t, 10, 5, 3)
		}
		if op.V%4 == 1 {
			// the entropy source fails during this step: the fall-back path runs
			scrand.SetFailing(true)
			defer scrand.SetFailing(false)
		}
		switch op.K % 6 {
		case 4:
			// the package-level defaults, shared by all threads: Id() and String() while another
			// thread may have just replaced the generator behind them
			if op.V%3 == 0 {
				start := time.Now().Add(-time.Duration(1+rng.N(1<<20)) * time.Second).Truncate(time.Millisecond).Add(time.Duration(rng.N(1000)) * time.Microsecond)
				ns := start.UnixNano()
				x.shared(&ns, nil, true)
				randz.SetIdGeneratorStartTime(start)
			}
			before := time.Now()
			id := randz.Id()
			after := time.Now()
			var ns int64
			x.shared(&ns, nil, false)
			start := time.Date(2023, 2, 27, 0, 30, 0, 0, time.UTC)
			if ns != 0 {
				start = time.Unix(0, ns)
			}
			ms := int64(id) >> 18
			if lo, hi := before.Sub(start).Milliseconds()-1, after.Sub(start).Milliseconds()+1; id < 0 || ms < lo || ms > hi {
				fail("Id() = %d carries %d ms; the start time last set (by some thread, in a call that had returned) is %v, %d..%d ms ago", id, ms, start.UTC(), lo, hi)
			}
		case 5:
			if op.V%3 == 0 {
				k := rng.N(len(defSets))
				x.shared(nil, &k, true)
				randz.SetStrGeneratorCharSet(defSets[k])
			}
			n := rng.N(40)
			str := randz.String(n)
			var k int
			x.shared(nil, &k, false)
			set := map[rune]bool{}
			for _, c := range defSets[k] {
				set[c] = true
			}
			cnt := 0
			for _, c := range str {
				cnt++
				if !set[c] {
					fail("String(%d): %q is not in the character set last set (%q)", n, c, defSets[k])
				}
			}
			if cnt != n {
				fail("String(%d) returned %d runes", n, cnt)
			}
		case 0:
			for i := 0; i < 20; i++ {
				if id := st.idg.Generate(); id < 0 {
					fail("IdGenerator.Generate() = %d", id)
				}
			}
		case 1:
			set := map[rune]bool{}
			for _, c := range []string{"abcdef", "xyz0123456789", "αβγδε"}[t%3] {
				set[c] = true
			}
			n := rng.N(60)
			s := st.sg.Generate(n)
			k := 0
			for _, c := range s {
				k++
				if !set[c] {
					fail("StrGenerator.Generate: %q is not in this thread's character set", c)
				}
			}
			if k != n {
				fail("StrGenerator.Generate(%d) returned %d runes", n, k)
			}
		case 2:
			id := randz.ID(rng.U64() >> 1)
			back, err := randz.ParseBase32([]byte(id.Base32()))
			if err != nil || back != id {
				fail("ParseBase32(%d.Base32()) = %d, %v", id, back, err)
			}
		default:
			d := rng.N(300)
			if got, lo, hi := st.cg.Generate(fmt.Sprint("id", t), d), st.cg.Min(d), st.cg.Max(d); got < lo || got > hi {
				fail("CountGenerator.Generate = %d outside [%d,%d]", got, lo, hi)
			}
		}
	default:
		panic("conf: VERIF_CONF_PROP not set to one of C02 C03 C09 C18 C20")
	}
	return r
}

type plainReader struct{ r *bytes.Reader }

func (p plainReader) Read(b []byte) (int, error) { return p.r.Read(b) }

type plainWriter struct{ w *bytes.Buffer }

func (p plainWriter) Write(b []byte) (int, error) { return p.w.Write(b) }

func gen(r *sim.Rng, tier string) *sim.Case {
	c := &sim.Case{Params: map[string]int{"conf": 1}}
	nT := r.Range(2, 3)
	total := 0
	for t := 0; t < nT; t++ {
		n := r.Range(1, 4)
		var prog []sim.Op
		for i := 0; i < n; i++ {
			prog = append(prog, sim.Op{Op: "W", K: r.N(12), V: 1 + r.N(1<<20)})
		}
		total += n
		c.Programs = append(c.Programs, prog)
	}
	c.Sched = enga.GenSched(r, nT, total, -1, false)
	c.Sched.SpinBurn, c.Sched.ClockJumpPct = 0, 0
	c.EnvSeed = r.U64() >> 12
	return c
}

func build(c *sim.Case) enga.Instance {
	if prop == "C20" {
		// the package-level defaults outlive a run: back to the package's own
		randz.SetIdGeneratorStartTime(time.Date(2023, 2, 27, 0, 30, 0, 0, time.UTC))
		randz.SetStrGeneratorCharSet(randz.CHAR_SET)
	}
	return &inst{}
}

func check(run *enga.Run) *sim.Violation {
	site := map[string]string{"C02": "listz.(*SkipList)", "C03": "setz.(*RoaringBitmap)", "C09": "cryptz", "C18": "algz", "C20": "randz"}[prop]
	for t, prog := range run.Case.Programs {
		for i := range prog {
			if r := run.Recs[t][i]; r.Done && !r.OK {
				return &sim.Violation{Class: "confined_instance_disturbed", Site: site,
					Detail: fmt.Sprintf("thread %d uses instances and arguments of its own, other threads use theirs: %s", t, r.S)}
			}
		}
	}
	run.Out.Probes["threads_with_private_instances_interleaved"]++
	return nil
}

func main() {
	enga.Main(&enga.Spec{ID: prop, Gen: gen, New: build, Check: check})
}
