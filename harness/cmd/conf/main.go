// conf — thread-confined instances under the race detector (a companion of the Engine-C checks).
//
// The sequential properties (C02 C03 C09 C18 C20) say how ONE skip list, bitmap, generator or call
// behaves.  A program may well use several of them from several goroutines, each goroutine with
// instances and arguments of its own; then nothing is shared and every one of them must behave as
// the property says.  Package-level state in the code under test (a scratch buffer, a pool, a
// cache) breaks exactly that, and alternating use from one goroutine (the twin instances of the
// Engine-C harnesses) need not show it.
//
// This worker is built with -race from an UNREWRITTEN copy of the tree (no shims: nothing in these
// packages needs a seam here).  Two or three simulated threads run short workloads on private
// instances; the scheduler interleaves them at operation granularity; the hand-off between threads
// is invisible to the race detector, so any access of two threads to the same package-level
// variable without synchronisation of golib's own is reported, whatever the real timing.  Light
// functional checks per operation catch interference that is not a race.
package main

import (
	"bytes"
	"fmt"
	"os"
	"sort"
	"strings"
	"time"

	"harness/enga"
	"harness/sim"

	"github.com/welllog/golib/algz"
	"github.com/welllog/golib/cryptz"
	"github.com/welllog/golib/listz"
	"github.com/welllog/golib/randz"
	"github.com/welllog/golib/setz"
	"github.com/welllog/golib/zzsim/scrand"
)

var prop = os.Getenv("VERIF_CONF_PROP")

type tstate struct {
	// C02
	sl  *listz.SkipList[int, int]
	slc *listz.SkipListWithCmp[int, int]
	slm map[int]int
	// C03
	rb  *setz.RoaringBitmap
	rbm map[uint32]bool
	// C20
	idg *randz.IdGenerator
	sg  *randz.StrGenerator
	cg  *randz.CountGenerator
}

type inst struct {
	st [8]tstate
	// the calls that replaced a package-level default of randz (which the library makes safe for
	// concurrent use: atomically swapped generators, a locked random source), with stamps; kept
	// through functions the race detector does not instrument, so that the bookkeeping neither
	// reports nor hides anything
	sets  [64]setRec
	nsets int
	stamp uint64
}

type setRec struct {
	kind   int // 0: start time of the default id generator, 1: character set of the default string generator
	st, en uint64
	val    int64
}

//go:norace
func (x *inst) tick() uint64 { x.stamp++; return x.stamp }

//go:norace
func (x *inst) setBegin(kind int, val int64) int {
	i := x.nsets
	x.nsets++
	if i < len(x.sets) {
		x.stamp++
		x.sets[i] = setRec{kind, x.stamp, ^uint64(0), val}
	}
	return i
}

//go:norace
func (x *inst) setEnd(i int) {
	if i < len(x.sets) {
		x.stamp++
		x.sets[i].en = x.stamp
	}
}

// allowed: the values a read that ran from stamp st to stamp en may have seen; defOK: also the
// package's own default; all: the log overflowed, nothing can be said.
//
//go:norace
func (x *inst) allowed(kind int, st, en uint64) (vals []int64, defOK, all bool) {
	if x.nsets > len(x.sets) {
		return nil, true, true
	}
	defOK = true
	for i := 0; i < x.nsets; i++ {
		e := x.sets[i]
		if e.kind != kind {
			continue
		}
		if e.en < st {
			defOK = false
		}
		if e.st > en {
			continue
		}
		over := false
		for j := 0; j < x.nsets; j++ {
			if f := x.sets[j]; f.kind == kind && f.st > e.en && f.en < st {
				over = true
			}
		}
		if !over {
			vals = append(vals, e.val)
		}
	}
	return vals, defOK, false
}

var defSets = []string{randz.CHAR_SET, "abcdef", "xyz0123456789", "αβγδε", "ab\xffc"}

type src struct{ r *sim.Rng }

func (s *src) Int63() int64    { return int64(s.r.U64() >> 1) }
func (s *src) Seed(seed int64) {}

// Do performs one step of thread t's private workload; r.OK=false and r.S carry a complaint.
func (x *inst) Do(t int, op sim.Op) sim.Rec {
	r := sim.Rec{OK: true}
	fail := func(format string, a ...any) {
		if r.OK {
			r.OK = false
			r.S = fmt.Sprintf(format, a...)
		}
	}
	st := &x.st[t]
	rng := sim.NewRng(uint64(op.V)*0x9E3779B97F4A7C15 + uint64(t))
	switch prop {
	case "C02":
		if st.sl == nil {
			st.sl, st.slm = listz.NewSkipList[int, int](), map[int]int{}
			st.slc = listz.NewSkipListWithCmp[int, int](func(a, b int) int { return a - b })
		}
		for i := 0; i < 40; i++ {
			k, v := rng.N(64), t<<20|op.V<<8|i
			switch rng.N(4) {
			case 0, 1:
				st.sl.Set(k, v)
				st.slc.Set(k, v)
				st.slm[k] = v
			case 2:
				_, ok := st.sl.Remove(k)
				_, ok2 := st.slc.Remove(k)
				if _, want := st.slm[k]; ok != want || ok2 != want {
					fail("Remove(%d) = %v / %v, key present = %v", k, ok, ok2, want)
				}
				delete(st.slm, k)
			default:
				got, ok := st.sl.Get(k)
				if want, present := st.slm[k]; ok != present || (ok && got != want) {
					fail("Get(%d) = %d, %v; this thread's list holds %d, %v", k, got, ok, want, present)
				}
			}
		}
		ks := st.sl.Keys()
		if len(ks) != len(st.slm) || !sort.IntsAreSorted(ks) || st.slc.Len() != len(st.slm) {
			fail("Keys() has %d keys (sorted %v), Len of the comparator list %d, this thread's lists hold %d", len(ks), sort.IntsAreSorted(ks), st.slc.Len(), len(st.slm))
		}
	case "C03":
		if st.rb == nil {
			st.rb, st.rbm = &setz.RoaringBitmap{}, map[uint32]bool{}
		}
		hi := uint32(t*4+rng.N(3)) << 16
		switch op.K % 3 {
		case 0: // a run that takes a bucket across the conversion threshold
			base := uint32(rng.N(60000))
			for i := uint32(0); i < 4200; i++ {
				v := hi | (base+i)&0xFFFF
				if st.rb.Add(v) == st.rbm[v] {
					fail("Add(%#x) reported the wrong membership change", v)
				}
				st.rbm[v] = true
			}
		case 1:
			n := 0
			for v := range st.rbm {
				if n++; n > 1500 {
					break
				}
				if !st.rb.Remove(v) {
					fail("Remove(%#x) = false for a member", v)
				}
				delete(st.rbm, v)
			}
		default:
			for i := 0; i < 50; i++ {
				v := hi | uint32(rng.N(1<<16))
				if st.rb.Contains(v) != st.rbm[v] {
					fail("Contains(%#x) = %v, member = %v", v, !st.rbm[v], st.rbm[v])
				}
			}
		}
		n, prev, asc := 0, uint32(0), true
		st.rb.Range(func(v uint32) bool {
			if !st.rbm[v] {
				fail("Range produced %#x, which this thread never added to its bitmap", v)
			}
			if n > 0 && v <= prev {
				asc = false
			}
			prev = v
			n++
			return n <= len(st.rbm)+4
		})
		if n != len(st.rbm) || !asc || st.rb.Len() != len(st.rbm) {
			fail("Range produced %d values (ascending %v), Len() = %d, this thread's bitmap holds %d", n, asc, st.rb.Len(), len(st.rbm))
		}
	case "C09":
		plain, secret, aad := rng.Bytes(rng.N(300)), rng.Bytes(1+rng.N(40)), rng.Bytes(rng.N(20))
		switch op.K % 3 {
		case 0:
			ct, err := cryptz.Encrypt(plain, secret)
			if err != nil {
				fail("Encrypt: %v", err)
				break
			}
			pt, err := cryptz.Decrypt(ct, secret)
			if err != nil || !bytes.Equal(pt, plain) {
				fail("Decrypt(Encrypt(p)) != p: %v", err)
			}
		case 1:
			ct, err := cryptz.GCMEncrypt(plain, secret, aad)
			if err != nil {
				fail("GCMEncrypt: %v", err)
				break
			}
			pt, err := cryptz.GCMDecrypt(ct, secret, aad)
			if err != nil || !bytes.Equal(pt, plain) {
				fail("GCMDecrypt(GCMEncrypt(p)) != p: %v", err)
			}
		default:
			big := rng.Bytes(rng.N(70000))
			var mid, dst bytes.Buffer
			if err := cryptz.EncryptStreamTo(&mid, plainReader{bytes.NewReader(big)}, secret); err != nil {
				fail("EncryptStreamTo: %v", err)
				break
			}
			if err := cryptz.DecryptStreamTo(plainWriter{&dst}, plainReader{bytes.NewReader(mid.Bytes())}, secret); err != nil || !bytes.Equal(dst.Bytes(), big) {
				fail("DecryptStreamTo(EncryptStreamTo(p)) != p: %v", err)
			}
		}
	case "C18":
		type item struct{ w, v int }
		n := 2 + rng.N(7)
		its := make([]item, n)
		for i := range its {
			its[i] = item{1 + rng.N(9), 1 + rng.N(9)}
		}
		limit := rng.N(30)
		switch op.K % 3 {
		case 0:
			sel := algz.Knapsack(limit, its, func(i item) int { return i.w }, func(i item) int { return i.v })
			tw, tv, best := 0, 0, 0
			for _, it := range sel {
				tw += it.w
				tv += it.v
			}
			for m := 0; m < 1<<n; m++ {
				w, v := 0, 0
				for i, it := range its {
					if m&(1<<i) != 0 {
						w += it.w
						v += it.v
					}
				}
				if w <= limit && v > best {
					best = v
				}
			}
			if tw > limit || tv != best {
				fail("Knapsack: selection weighs %d (limit %d) and is worth %d (best %d)", tw, limit, tv, best)
			}
		case 1:
			dp := algz.FindDpSolvers(limit, its, func(i item) int { return i.w }, op.V%2 == 0)
			for total, sel := range dp {
				s := 0
				for _, it := range sel {
					s += it.w
				}
				if s != total {
					fail("FindDpSolvers: the selection stored for total %d adds up to %d", total, s)
				}
			}
		default:
			var g algz.Graph[int]
			nv := 3 + rng.N(5)
			adj := map[[2]int]bool{}
			for i := 0; i < nv; i++ {
				g.AddNode(i)
			}
			for i := 0; i < nv*2; i++ {
				a, b := rng.N(nv), rng.N(nv)
				if a != b {
					g.AddUndirectedEdge(a, b)
					adj[[2]int{a, b}], adj[[2]int{b, a}] = true, true
				}
			}
			for _, cl := range g.GetMaximalCliques() {
				for i := range cl {
					for j := i + 1; j < len(cl); j++ {
						if !adj[[2]int{cl[i], cl[j]}] {
							fail("GetMaximalCliques: %v is not a clique", cl)
						}
					}
				}
			}
		}
	case "C20":
		if st.idg == nil {
			g := randz.NewIdGenerator(time.Now().Add(-time.Hour), 4+t*7)
			st.idg = &g
			sg := randz.NewStrGenerator([]string{"abcdef", "xyz0123456789", "αβγδε"}[t%3], &src{r: sim.NewRng(uint64(t) + 77)})
			st.sg = &sg
			st.cg = &randz.CountGenerator{}
			st.cg.AddRule(100+t, 10, 5, 3)
		}
		if op.V%4 == 1 {
			// the entropy source fails during this step: the fall-back path runs
			scrand.SetFailing(true)
			defer scrand.SetFailing(false)
		}
		switch op.K % 6 {
		case 4:
			// the package-level defaults, shared by all threads: Id() and String() while another
			// thread may be replacing the generator behind them.  Every replacing call is
			// logged with stamps taken before and after it; what a reading call may have seen
			// is any value whose replacement had not been overwritten, before the read began,
			// by a later replacement (in the plain build calls never overlap, in the build with
			// scheduling points inside the package they do).
			if op.V%3 == 0 {
				start := time.Now().Add(-time.Duration(1+rng.N(1<<20)) * time.Second).Truncate(time.Millisecond).Add(time.Duration(rng.N(1000)) * time.Microsecond)
				h := x.setBegin(0, start.UnixNano())
				randz.SetIdGeneratorStartTime(start)
				x.setEnd(h)
			}
			st0 := x.tick()
			before := time.Now()
			id := randz.Id()
			after := time.Now()
			vals, defOK, all := x.allowed(0, st0, x.tick())
			if defOK {
				vals = append(vals, time.Date(2023, 2, 27, 0, 30, 0, 0, time.UTC).UnixNano())
			}
			ms := int64(id) >> 18
			ok := all && id >= 0
			for _, ns := range vals {
				start := time.Unix(0, ns)
				if lo, hi := before.Sub(start).Milliseconds()-1, after.Sub(start).Milliseconds()+1; id >= 0 && ms >= lo && ms <= hi {
					ok = true
				}
			}
			if !ok {
				fail("Id() = %d carries %d ms, which is the time since none of the %d start times it may have seen (set by calls that had returned and were not yet replaced, or were running)", id, ms, len(vals))
			}
		case 5:
			if op.V%3 == 0 {
				k := rng.N(len(defSets))
				h := x.setBegin(1, int64(k))
				randz.SetStrGeneratorCharSet(defSets[k])
				x.setEnd(h)
			}
			n := rng.N(40)
			st0 := x.tick()
			str := randz.String(n)
			vals, defOK, all := x.allowed(1, st0, x.tick())
			if defOK {
				vals = append(vals, 0)
			}
			cnt := 0
			for range str {
				cnt++
			}
			if cnt != n {
				fail("String(%d) returned %d runes", n, cnt)
			}
			ok := all
			for _, k := range vals {
				in := true
				for _, c := range str {
					if !strings.ContainsRune(defSets[k], c) {
						in = false
					}
				}
				ok = ok || in
			}
			if !ok {
				fail("String(%d) = %q: not drawn from any of the %d character sets it may have seen (set by calls that had returned and were not yet replaced, or were running)", n, str, len(vals))
			}
		case 0:
			for i := 0; i < 20; i++ {
				if id := st.idg.Generate(); id < 0 {
					fail("IdGenerator.Generate() = %d", id)
				}
			}
		case 1:
			set := map[rune]bool{}
			for _, c := range []string{"abcdef", "xyz0123456789", "αβγδε"}[t%3] {
				set[c] = true
			}
			n := rng.N(60)
			s := st.sg.Generate(n)
			k := 0
			for _, c := range s {
				k++
				if !set[c] {
					fail("StrGenerator.Generate: %q is not in this thread's character set", c)
				}
			}
			if k != n {
				fail("StrGenerator.Generate(%d) returned %d runes", n, k)
			}
		case 2:
			id := randz.ID(rng.U64() >> 1)
			back, err := randz.ParseBase32([]byte(id.Base32()))
			if err != nil || back != id {
				fail("ParseBase32(%d.Base32()) = %d, %v", id, back, err)
			}
		default:
			d := rng.N(300)
			if got, lo, hi := st.cg.Generate(fmt.Sprint("id", t), d), st.cg.Min(d), st.cg.Max(d); got < lo || got > hi {
				fail("CountGenerator.Generate = %d outside [%d,%d]", got, lo, hi)
			}
		}
	default:
		panic("conf: VERIF_CONF_PROP not set to one of C02 C03 C09 C18 C20")
	}
	return r
}

type plainReader struct{ r *bytes.Reader }

func (p plainReader) Read(b []byte) (int, error) { return p.r.Read(b) }

type plainWriter struct{ w *bytes.Buffer }

func (p plainWriter) Write(b []byte) (int, error) { return p.w.Write(b) }

// generated counts the cases generated by this process: the first one is the "first use" run.
var generated int

func gen(r *sim.Rng, tier string) *sim.Case {
	c := &sim.Case{Params: map[string]int{"conf": 1}}
	if os.Getenv("VERIF_CONF_FINE") == "1" {
		c.Params["conf"] = 2 // the build with scheduling points inside the package
	}
	nT := r.Range(2, 3)
	total := 0
	first := generated == 0
	generated++
	if first {
		// The first run of a fresh process: every thread goes through every kind of step, each
		// in a rotation of its own, so that the FIRST use of every entry point of the package
		// in this process (lazy tables, lazily created defaults, sync.Once bodies) is followed
		// by uses from other threads.  A replay of this case is the first run of its process too.
		nT = 3
		c.Params["first_use"] = 1
	}
	for t := 0; t < nT; t++ {
		n := r.Range(1, 4)
		var prog []sim.Op
		if first {
			// (steps 5 and 4 are the package-level defaults of randz: all threads begin there,
			// thread 1 by replacing them, so that the replacement overlaps the very first reads)
			for _, k := range []int{5, 4} {
				v := 3*r.N(1<<18) + 1
				if t == 1 {
					v = 3 * (1 + r.N(1<<18))
				}
				prog = append(prog, sim.Op{Op: "W", K: k, V: v})
			}
			rot := []int{0, 4, 2}[t]
			for i := 0; i < 6; i++ {
				prog = append(prog, sim.Op{Op: "W", K: (rot + i) % 6, V: 3*r.N(1<<18) + 1}) // (reading only: what the first steps left behind stays visible)
			}
			n = 8
		} else {
			for i := 0; i < n; i++ {
				prog = append(prog, sim.Op{Op: "W", K: r.N(12), V: 1 + r.N(1<<20)})
			}
		}
		total += n
		c.Programs = append(c.Programs, prog)
	}
	c.Sched = enga.GenSched(r, nT, total, -1, false)
	c.Sched.SpinBurn, c.Sched.ClockJumpPct = 0, 0
	if first && r.Bool() {
		// first uses in lockstep: a thread is a step or two into its first call when the next
		// one begins its own
		c.Sched.Policy, c.Sched.Quanta, c.Sched.Stalls = "lockstep", []int{r.Range(1, 3), r.Range(1, 3), r.Range(1, 3), 1}, nil
	}
	c.EnvSeed = r.U64() >> 12
	return c
}

// built counts the instances built by this process.
var built int

func build(c *sim.Case) enga.Instance {
	built++
	if prop == "C20" && built > 1 {
		// (not before the first run of the process: that one meets the package as it starts)
		// the package-level defaults outlive a run: back to the package's own
		randz.SetIdGeneratorStartTime(time.Date(2023, 2, 27, 0, 30, 0, 0, time.UTC))
		randz.SetStrGeneratorCharSet(randz.CHAR_SET)
	}
	return &inst{}
}

func check(run *enga.Run) *sim.Violation {
	site := map[string]string{"C02": "listz.(*SkipList)", "C03": "setz.(*RoaringBitmap)", "C09": "cryptz", "C18": "algz", "C20": "randz"}[prop]
	for t, prog := range run.Case.Programs {
		for i := range prog {
			if r := run.Recs[t][i]; r.Done && !r.OK {
				return &sim.Violation{Class: "confined_instance_disturbed", Site: site,
					Detail: fmt.Sprintf("thread %d uses instances and arguments of its own, other threads use theirs: %s", t, r.S)}
			}
		}
	}
	run.Out.Probes["threads_with_private_instances_interleaved"]++
	if run.Case.P("first_use") == 1 {
		run.Out.Probes["first_run_of_a_fresh_process_(every_entry_point_first_used_by_one_thread,_then_by_others)"]++
	}
	return nil
}

func main() {
	enga.Main(&enga.Spec{ID: prop, Gen: gen, New: build, Check: check})
}
