// Engine B worker — C19: goz.Limiter bounds concurrency, runs every task once and survives
// panics.  Built as a test binary with go1.26.8 because it needs testing/synctest.
//
// The rewriter inserts syield.Y(loc) before every statement of goz.go.  Inside a synctest
// bubble a goroutine that reaches a yield parks on a channel made in the bubble (durably
// blocked); the controller calls synctest.Wait(), which returns when every goroutine is parked
// at a yield, blocked on a real primitive or gone, and then releases exactly one parked
// goroutine (or opens a task's gate) chosen by the run's PRNG.  One seed = one schedule.
package wb

import (
	"bufio"
	"context"
	"encoding/binary"
	"errors"
	"flag"
	"fmt"
	"io"
	"net/http"
	"os"
	"runtime"
	"sort"
	"strings"
	"sync"
	"testing"
	"testing/synctest"
	"time"

	"harness/sim"

	"github.com/welllog/golib/goz"
	"github.com/welllog/golib/zzsim/core"
	"github.com/welllog/golib/zzsim/syield"
)

var (
	fMode      = flag.String("mode", "explore", "explore | replay")
	fSeed      = flag.Uint64("seed", 1, "VERIF_SEED")
	fWorker    = flag.Int("worker", 0, "worker index")
	fBudget    = flag.Int("budget-ms", 1000, "exploration budget")
	fMaxRuns   = flag.Int("max-runs", 0, "stop after this many runs")
	fTier      = flag.String("tier", "quick", "quick | thorough")
	fOut       = flag.String("out", "", "result file")
	fCase      = flag.String("case", "", "replay: case file")
	fStrict    = flag.Bool("strict", false, "replay: strict schedule")
	fDump      = flag.Bool("dump-hashes", false, "record per-run log hashes")
	fHashOut   = flag.String("hash-out", "", "file for distinct nontrivial run hashes")
	fCrashFile = flag.String("crash-file", "", "file that always holds the case being executed")
	fReverse   = flag.Bool("reverse", false, "with -max-runs: execute the runs in reverse order")
)

const site = "goz.(*Limiter)"

type taskSpec struct {
	yields int
	panicK int // 0 none, 1 string, 2 error, 3 struct
	block  int // 0 no, 1 gate opened at a random time, 2 gate opened only when nothing else can move
}

type nilDerefErr struct{ msg string }

func (e *nilDerefErr) Error() string { return e.msg }

type panicStruct struct {
	Task int
	Why  string
}

type parkedG struct {
	lid int
	loc string
	ch  chan struct{}
}

type world struct {
	mu          sync.Mutex
	c           *sim.Case
	nEff        int
	tasks       []taskSpec
	gates       []chan struct{}
	gateOpen    []bool
	entered     []int
	exited      []bool
	blockedOn   []bool // task is inside its body waiting for its gate
	submitted   []bool
	inside      int
	maxInside   int
	handled     []string
	expected    []string
	gids        map[uint64]int
	nextLid     int
	parked      []parkedG
	freeRun     bool
	subState    string // "", "go:<i>", "wait", "done"
	subDone     bool
	viol        *sim.Violation
	newInStep   int
	notes       []string
	hash        uint64
	waitEarly   string
	waitTms     int
	handlerOn   bool
	helperState string
	// the twin: a second Limiter (limit 2) used alternately with the first by the submitter.
	// Two limiters share nothing: neither may take the other's slots or wake the other's Wait.
	tw                    *goz.Limiter
	twSub, twDone, twIn   int
	twHandled, twExpected []string
	helperDone            chan struct{}
}

func goid() uint64 {
	var buf [64]byte
	n := runtime.Stack(buf[:], false)
	// "goroutine 123 ["
	var id uint64
	for _, ch := range buf[10:n] {
		if ch < '0' || ch > '9' {
			break
		}
		id = id*10 + uint64(ch-'0')
	}
	return id
}

func (w *world) hook(loc string) {
	w.mu.Lock()
	if w.freeRun {
		w.mu.Unlock()
		return
	}
	g := goid()
	lid, ok := w.gids[g]
	if !ok {
		lid = w.nextLid
		w.nextLid++
		w.gids[g] = lid
		w.newInStep++
	}
	ch := make(chan struct{})
	w.parked = append(w.parked, parkedG{lid, loc, ch})
	w.mu.Unlock()
	<-ch
}

func (w *world) handler(p any) {
	w.hook("handler.enter") // a slow handler: other goroutines may run meanwhile
	w.mu.Lock()
	w.handled = append(w.handled, fmt.Sprint(p))
	w.mu.Unlock()
}

func (w *world) setViol(class, where, format string, a ...any) {
	if w.viol == nil {
		w.viol = &sim.Violation{Class: class, Site: site + where, Detail: fmt.Sprintf(format, a...)}
	}
}

// the body of task i, as submitted to Limiter.Go
func (w *world) taskFn(i int) func() {
	return func() {
		sp := w.tasks[i]
		w.mu.Lock()
		w.entered[i]++
		if w.entered[i] > 1 {
			w.setViol("task_twice", ".Go", "task %d was executed %d times", i, w.entered[i])
		}
		w.inside++
		if w.inside > w.maxInside {
			w.maxInside = w.inside
		}
		if w.inside > w.nEff {
			w.setViol("limit_exceeded", ".Go", "%d submitted functions running at once, limit %d", w.inside, w.nEff)
		}
		w.mu.Unlock()
		for k := 0; k < sp.yields; k++ {
			w.hook(fmt.Sprintf("task%d.body", i))
		}
		if sp.block != 0 {
			w.mu.Lock()
			w.blockedOn[i] = true
			w.mu.Unlock()
			<-w.gates[i]
			w.mu.Lock()
			w.blockedOn[i] = false
			w.mu.Unlock()
			w.hook(fmt.Sprintf("task%d.after-gate", i))
		}
		w.mu.Lock()
		w.inside--
		w.exited[i] = true
		w.mu.Unlock()
		switch sp.panicK {
		case 1:
			panic(fmt.Sprintf("task %d failed", i))
		case 2:
			panic(errors.New(fmt.Sprintf("task %d error", i)))
		case 3:
			panic(panicStruct{i, "struct"})
		case 5:
			// a runtime.Error raised by the runtime itself
			var m map[int]int
			m[i] = 1
		case 6:
			var a []int
			_ = a[i+3]
		case 7:
			panic(fmt.Errorf("task %d wrapped: %w", i, errors.New("inner")))
		case 8:
			// the typed-nil gotcha: an error value holding a nil pointer whose Error method
			// dereferences it (printing it with %v is safe, calling Error() is not)
			var e *nilDerefErr
			panic(error(e))
		case 9, 10, 11, 12, 13, 14:
			// well-known error values of the standard library, bare or wrapped: what a task
			// that gives up on a cancelled context, a closed file or an aborted request panics with
			panic(sentinelPanic(i, sp.panicK))
		case 15:
			// a panic raised inside a compiler-generated wrapper: a value-receiver method called
			// through an interface that holds a nil pointer (the traceback has a frame whose
			// file is "<autogenerated>")
			var n *named15
			var s fmt.Stringer = n
			_ = s.String()
		case 4:
			// panic(nil) with the pre-go1.21 semantics golib's own go.mod (go 1.18) selects:
			// recover() returns nil.  It is a panic by any reading, so it must neither kill
			// the process nor leak the slot; there is no value that could reach the handler.
			panic(nil)
		}
	}
}

type named15 struct{ a, b int }

//go:noinline
func (n named15) String() string { return fmt.Sprint(n.a, n.b) }

func sentinelPanic(i, k int) error {
	switch k {
	case 9:
		return context.Canceled
	case 10:
		return fmt.Errorf("task %d: fetch: %w", i, context.DeadlineExceeded)
	case 11:
		return io.EOF
	case 12:
		return fmt.Errorf("task %d: read: %w", i, io.ErrUnexpectedEOF)
	case 13:
		return http.ErrAbortHandler
	}
	return fmt.Errorf("task %d: open: %w", i, os.ErrNotExist)
}

func panicText(i, k int) string {
	if k >= 9 && k <= 14 {
		return fmt.Sprint(sentinelPanic(i, k))
	}
	if k == 15 {
		return "value method harness/wb.named15.String called using nil *named15 pointer"
	}
	switch k {
	case 1:
		return fmt.Sprintf("task %d failed", i)
	case 2:
		return fmt.Sprintf("task %d error", i)
	case 3:
		return fmt.Sprint(panicStruct{i, "struct"})
	case 5:
		return "assignment to entry in nil map"
	case 6:
		return fmt.Sprintf("runtime error: index out of range [%d] with length 0", i+3)
	case 7:
		return fmt.Sprintf("task %d wrapped: inner", i)
	case 8:
		var e *nilDerefErr
		return fmt.Sprint(error(e))
	}
	return ""
}

// helper is a second goroutine that submits functions concurrently with the main submitter
// (Programs[1], Go operations only).  The main submitter joins it before its first Wait:
// calling Wait while another goroutine may still call Go is a misuse of the WaitGroup inside,
// not something the statement covers.
func (w *world) helper(l *goz.Limiter) {
	defer close(w.helperDone)
	w.hook("helper.start")
	for _, op := range w.c.Programs[1] {
		if op.Op != "Go" {
			continue
		}
		i := op.K
		if i < 0 || i >= len(w.tasks) {
			continue
		}
		w.mu.Lock()
		if w.submitted[i] {
			w.mu.Unlock()
			continue
		}
		w.submitted[i] = true
		w.helperState = fmt.Sprintf("go:%d", i)
		if k := w.tasks[i].panicK; k != 0 && k != 4 && w.handlerOn {
			w.expected = append(w.expected, panicText(i, k))
		}
		w.mu.Unlock()
		l.Go(w.taskFn(i))
		w.mu.Lock()
		w.helperState = ""
		w.mu.Unlock()
		w.hook("helper.between-ops")
	}
}

func (w *world) twinTask(n int) func() {
	return func() { w.twinBody(n) }
}

func (w *world) twinBody(n int) {
	w.mu.Lock()
	w.twIn++
	if w.twIn > 2 {
		w.setViol("limit_exceeded", ".Go", "twin limiter (limit 2, used alternately with the first): %d functions running at once", w.twIn)
	}
	w.mu.Unlock()
	w.hook("twin.body")
	w.mu.Lock()
	w.twIn--
	w.twDone++
	w.mu.Unlock()
	if n%3 == 2 {
		panic(fmt.Sprintf("twin task %d failed", n)) // must reach the twin's own handler only
	}
}

func (w *world) submitter(l *goz.Limiter) {
	w.hook("submitter.start")
	if w.c.P("twin") == 1 {
		w.tw = goz.NewLimiter(2)
		w.tw.SetPanicHandler(func(p any) {
			w.mu.Lock()
			w.twHandled = append(w.twHandled, fmt.Sprint(p))
			w.mu.Unlock()
		})
	}
	for _, op := range w.c.Programs[0] {
		switch op.Op {
		case "Go":
			i := op.K
			if i < 0 || i >= len(w.tasks) || w.submitted[i] {
				continue
			}
			w.mu.Lock()
			w.submitted[i] = true
			w.subState = fmt.Sprintf("go:%d", i)
			if k := w.tasks[i].panicK; k != 0 && k != 4 && w.handlerOn {
				w.expected = append(w.expected, panicText(i, k))
			}
			w.mu.Unlock()
			l.Go(w.taskFn(i))
			w.mu.Lock()
			w.subState = ""
			w.mu.Unlock()
			if w.tw != nil {
				w.mu.Lock()
				w.twSub++
				n := w.twSub
				if n%3 == 2 {
					w.twExpected = append(w.twExpected, fmt.Sprintf("twin task %d failed", n))
				}
				w.mu.Unlock()
				w.tw.Go(w.twinTask(n))
			}
		case "Join":
			if w.helperDone != nil {
				w.mu.Lock()
				w.subState = "join"
				w.mu.Unlock()
				<-w.helperDone
				w.mu.Lock()
				w.subState = ""
				w.mu.Unlock()
			}
		case "SetHandler":
			// the handler in force when Go is called is the one the task gets
			w.mu.Lock()
			w.handlerOn = op.K == 1
			w.mu.Unlock()
			if op.K == 1 {
				l.SetPanicHandler(w.handler)
			} else {
				l.SetPanicHandler(nil)
			}
		case "WaitT":
			// timed Wait: may legitimately return before the tasks have finished; what it
			// leaves behind (a waiter goroutine) must not disturb later calls
			w.mu.Lock()
			w.subState = "waitT"
			w.waitTms = op.D
			w.mu.Unlock()
			l.Wait(time.Duration(op.D) * time.Millisecond)
			w.mu.Lock()
			w.subState = ""
			w.mu.Unlock()
		case "Wait":
			w.mu.Lock()
			w.subState = "wait"
			w.mu.Unlock()
			l.Wait()
			w.mu.Lock()
			w.subState = ""
			for i := range w.tasks {
				if w.submitted[i] && !w.exited[i] && w.waitEarly == "" {
					w.waitEarly = fmt.Sprintf("Wait() returned while task %d had not finished (entered=%d)", i, w.entered[i])
				}
			}
			w.mu.Unlock()
			if w.tw != nil {
				w.tw.Wait()
				w.mu.Lock()
				if w.twDone != w.twSub && w.waitEarly == "" {
					w.waitEarly = fmt.Sprintf("twin limiter: Wait() returned with %d of %d functions finished", w.twDone, w.twSub)
				}
				w.mu.Unlock()
			}
		}
		w.hook("submitter.between-ops")
	}
	w.mu.Lock()
	w.subDone = true
	w.subState = "done"
	w.mu.Unlock()
}

type runInfo struct {
	steps       int
	schedule    []int16
	hash        uint64
	end         string
	maxParked   int
	preempts    int
	gateOpens   int
	panics      int
	blocked     int
	tightProbe  int
	ticks       int
	diverged    bool
	newTwice    bool
	deadlockMsg string
}

func (w *world) mix(v uint64) {
	h := w.hash
	for i := 0; i < 8; i++ {
		h ^= v & 0xff
		h *= 1099511628211
		v >>= 8
	}
	w.hash = h
}

func strHash(s string) uint64 {
	h := uint64(14695981039346656037)
	for i := 0; i < len(s); i++ {
		h ^= uint64(s[i])
		h *= 1099511628211
	}
	return h
}

// runCase executes one case.  script == nil: choices come from the case's scheduler seed.
func runCase(t *testing.T, c *sim.Case, script []int16, strict bool) (*sim.Violation, *runInfo) {
	info := &runInfo{}
	w := &world{c: c, gids: map[uint64]int{}, hash: 14695981039346656037}
	limit := c.P("limit")
	w.nEff = limit
	if limit < 1 {
		w.nEff = 3
	}
	for _, op := range c.Ops {
		if op.Op == "Task" {
			w.tasks = append(w.tasks, taskSpec{yields: op.K, panicK: op.V, block: op.D})
		}
	}
	n := len(w.tasks)
	w.entered, w.exited, w.blockedOn, w.submitted, w.gateOpen = make([]int, n), make([]bool, n), make([]bool, n), make([]bool, n), make([]bool, n)
	rng := sim.NewRng(c.Sched.Seed)
	sticky := c.Sched.StickyPct
	maxSteps := c.Sched.MaxSteps
	if maxSteps <= 0 {
		maxSteps = 3000
	}
	// the budget grows with the amount of work of the case: a correct implementation with more
	// statements per task (every statement is a scheduling point) must not run out of steps
	if need := 1000 + 600*n*(1+c.P("twin")); maxSteps < need {
		maxSteps = need
	}
	func() {
		defer func() {
			if r := recover(); r != nil {
				info.deadlockMsg = fmt.Sprint(r)
			}
		}()
		synctest.Test(t, func(t *testing.T) {
			w.gates = make([]chan struct{}, n)
			for i := range w.gates {
				w.gates[i] = make(chan struct{})
			}
			core.PoolReset(c.EnvSeed)
			l := goz.NewLimiter(limit)
			if c.P("handler") == 1 {
				w.handlerOn = true
				l.SetPanicHandler(w.handler)
			}
			syield.Hook = w.hook
			go w.submitter(l)
			if len(c.Programs) > 1 && len(c.Programs[1]) > 0 {
				// one new goroutine per quiescent step keeps logical ids deterministic
				synctest.Wait()
				w.mu.Lock()
				w.newInStep = 0
				w.mu.Unlock()
				w.helperDone = make(chan struct{})
				go w.helper(l)
			}
			last := -1
			pos := 0
			for step := 0; ; step++ {
				synctest.Wait()
				w.mu.Lock()
				if w.newInStep > 1 {
					info.newTwice = true
				}
				w.newInStep = 0
				sort.Slice(w.parked, func(a, b int) bool { return w.parked[a].lid < w.parked[b].lid })
				if len(w.parked) > info.maxParked {
					info.maxParked = len(w.parked)
				}
				// log the quiescent state
				for _, p := range w.parked {
					w.mix(uint64(p.lid)<<32 ^ strHash(p.loc))
				}
				w.mix(uint64(w.inside)<<8 | uint64(len(w.handled)))
				if w.waitEarly != "" {
					w.setViol("wait_returned_early", ".Wait", "%s", w.waitEarly)
				}
				if w.viol != nil {
					info.end = "violation"
					w.mu.Unlock()
					break
				}
				allDone := w.subDone && len(w.parked) == 0
				if allDone {
					for i := range w.tasks {
						if w.submitted[i] && !w.exited[i] {
							allDone = false
						}
					}
				}
				if allDone {
					info.end = "complete"
					w.mu.Unlock()
					break
				}
				if step >= maxSteps {
					info.end = "budget"
					w.setViol("liveness", "", "run did not finish within %d scheduling steps", maxSteps)
					w.mu.Unlock()
					break
				}
				// choices: release a parked goroutine, or open a gate
				var opts []int16
				for _, p := range w.parked {
					opts = append(opts, int16(p.lid))
				}
				var eager, lazy []int16
				for i := range w.tasks {
					if w.blockedOn[i] && !w.gateOpen[i] {
						if w.tasks[i].block == 1 {
							eager = append(eager, int16(-10-i))
						} else {
							lazy = append(lazy, int16(-10-i))
						}
					}
				}
				// the fake clock may be advanced while the submitter sits in a timed Wait
				tick := false
				if w.subState == "waitT" {
					tick = true
					for _, p := range w.parked {
						if p.lid == 0 {
							tick = false
						}
					}
				}
				if len(w.parked) == 0 && tick {
					opts = append(opts, -2)
				} else if len(w.parked) == 0 {
					// nothing can move but a gate: every worker goroutine is gone or inside a
					// blocked task, so the tokens in use equal the number of running tasks
					if strings.HasPrefix(w.subState, "go:") || strings.HasPrefix(w.helperState, "go:") {
						info.tightProbe++
						if w.inside < w.nEff {
							w.setViol("slot_leaked", ".Go", "Go blocks although only %d functions are running, limit %d (a slot was not given back)", w.inside, w.nEff)
						}
					}
					if w.viol == nil && len(eager)+len(lazy) == 0 {
						w.setViol("liveness", "", "nothing can run, work unfinished (submitter state %q, %d tasks inside): a token or a WaitGroup count was leaked", w.subState, w.inside)
					}
					if w.viol != nil {
						info.end = "violation"
						w.mu.Unlock()
						break
					}
					opts = append(append(opts, eager...), lazy...)
				} else {
					opts = append(opts, eager...)
					if tick {
						opts = append(opts, -2)
					}
				}
				if tick && len(w.parked) == 0 {
					opts = append(append(opts, eager...), lazy...)
				}
				choice := int16(-1)
				if script != nil {
					for pos < len(script) {
						cnd := script[pos]
						pos++
						ok := false
						for _, o := range opts {
							if o == cnd {
								ok = true
							}
						}
						if ok {
							choice = cnd
							break
						}
						if strict {
							info.diverged = true
							break
						}
					}
					if info.diverged {
						info.end = "diverged"
						w.mu.Unlock()
						break
					}
					if choice == -1 {
						if strict {
							info.diverged = true
							info.end = "diverged"
							w.mu.Unlock()
							break
						}
						choice = opts[0]
					}
				} else {
					lastOK := false
					for _, o := range opts {
						if int(o) == last {
							lastOK = true
						}
					}
					if lastOK && rng.N(100) < sticky {
						choice = int16(last)
					} else {
						choice = opts[rng.N(len(opts))]
					}
				}
				info.schedule = append(info.schedule, choice)
				w.mix(uint64(uint16(choice)))
				if choice >= 0 {
					if last >= 0 && int(choice) != last {
						info.preempts++
					}
					last = int(choice)
					for i, p := range w.parked {
						if p.lid == int(choice) {
							w.parked = append(w.parked[:i], w.parked[i+1:]...)
							close(p.ch)
							break
						}
					}
				} else if choice == -2 {
					d := time.Duration(w.waitTms) * time.Millisecond
					info.ticks++
					info.steps = step + 1
					w.mu.Unlock()
					time.Sleep(d) // every goroutine is durably blocked: the fake clock jumps
					continue
				} else {
					i := int(-choice) - 10
					w.gateOpen[i] = true
					close(w.gates[i])
					info.gateOpens++
				}
				info.steps = step + 1
				w.mu.Unlock()
			}
			// let everything drain natively
			w.mu.Lock()
			w.freeRun = true
			for _, p := range w.parked {
				close(p.ch)
			}
			w.parked = nil
			for i := range w.gates {
				if !w.gateOpen[i] {
					w.gateOpen[i] = true
					close(w.gates[i])
				}
			}
			w.mu.Unlock()
			synctest.Wait()
			if strict && script != nil && pos != len(script) && info.end == "complete" {
				info.diverged = true
			}
		})
	}()
	syield.Hook = nil
	info.schedule = append([]int16{}, info.schedule...)
	info.hash = w.hash
	v := w.viol
	if info.diverged {
		return &sim.Violation{Class: "replay_diverged", Site: "-", Detail: "strict replay: schedule entry not available or wrong length"}, info
	}
	if v == nil && info.end == "complete" {
		// end-of-run checks
		for i := range w.tasks {
			if w.submitted[i] && w.entered[i] != 1 {
				v = &sim.Violation{Class: "task_lost", Site: site + ".Go", Detail: fmt.Sprintf("task %d was executed %d times, expected exactly once", i, w.entered[i])}
				break
			}
		}
		if v == nil {
			a, b := append([]string{}, w.handled...), append([]string{}, w.expected...)
			sort.Strings(a)
			sort.Strings(b)
			if strings.Join(a, "|") != strings.Join(b, "|") {
				v = &sim.Violation{Class: "handler_mismatch", Site: site + ".SetPanicHandler", Detail: fmt.Sprintf("panic handler received %q, the panicking tasks raised %q", a, b)}
			}
		}
		if v == nil && w.tw != nil {
			a, b := append([]string{}, w.twHandled...), append([]string{}, w.twExpected...)
			sort.Strings(a)
			sort.Strings(b)
			if strings.Join(a, "|") != strings.Join(b, "|") {
				v = &sim.Violation{Class: "handler_mismatch", Site: site + ".SetPanicHandler", Detail: fmt.Sprintf("twin limiter (own handler, used alternately with the first): its handler received %q, its tasks raised %q", a, b)}
			}
		}
	}
	for _, sp := range w.tasks {
		if sp.panicK != 0 {
			info.panics++
		}
		if sp.block != 0 {
			info.blocked++
		}
	}
	_ = time.Now
	return v, info
}

func gen(r *sim.Rng, tier string) *sim.Case {
	c := &sim.Case{Params: map[string]int{}}
	c.Params["limit"] = []int{-1, 0, 1, 1, 2, 2, 3, 4, 5, 7}[r.N(10)]
	if r.Pct(4) {
		c.Params["limit"] = r.Range(6, 20) // any limit, odd and even, with few scripted tasks
	}
	c.Params["handler"] = r.Pick(1, 3)
	if r.Pct(10) {
		c.Params["twin"] = 1 // a second Limiter is used alternately
	}
	nEff := c.Params["limit"]
	if nEff < 1 {
		nEff = 3
	}
	maxTasks := 6
	if tier == "thorough" {
		maxTasks = 10
	}
	nScript := r.N(maxTasks + 1)
	if r.Pct(3) {
		nScript = r.Range(15, 40) // rare large run
		c.Params["limit"] = []int{1, 2, 3, 8, 9, 11, 13, 16}[r.N(8)]
		nEff = c.Params["limit"]
	}
	panicPct := []int{0, 20, 50, 100}[r.N(4)]
	blockPct := []int{0, 20, 60}[r.N(3)]
	var prog []sim.Op
	timed := r.Pct(40)     // swarm: some scripts use timed waits
	switching := r.Pct(25) // ... and some switch the panic handler between submissions
	for i := 0; i < nScript; i++ {
		t := sim.Op{Op: "Task", K: r.N(3)}
		if r.Pct(panicPct) {
			t.V = r.Range(1, 8)
			if r.Pct(25) {
				t.V = r.Range(9, 15) // well-known sentinel errors, bare or wrapped; a panic inside an autogenerated wrapper
			}
		}
		if r.Pct(blockPct) {
			t.D = r.Range(1, 2)
		}
		c.Ops = append(c.Ops, t)
		if switching && r.Pct(20) {
			prog = append(prog, sim.Op{Op: "SetHandler", K: r.N(2)})
		}
		prog = append(prog, sim.Op{Op: "Go", K: i})
		if r.Pct(20) {
			prog = append(prog, sim.Op{Op: "Wait"})
		} else if timed && r.Pct(25) {
			prog = append(prog, sim.Op{Op: "WaitT", D: []int{1, 5, 50}[r.N(3)]})
		}
	}
	// some scripts let a second goroutine submit a share of the tasks concurrently; the main
	// submitter then joins it before its first Wait and does not switch handlers meanwhile
	var helperProg []sim.Op
	if nScript >= 2 && r.Pct(30) {
		var mainProg []sim.Op
		joined := false
		for _, op := range prog {
			switch {
			case op.Op == "Go" && !joined && r.Bool():
				helperProg = append(helperProg, op)
			case op.Op == "Go":
				mainProg = append(mainProg, op)
			case op.Op == "SetHandler" && !joined:
				// dropped: the handler must not change while the helper submits
			default:
				if !joined {
					mainProg = append(mainProg, sim.Op{Op: "Join"})
					joined = true
				}
				mainProg = append(mainProg, op)
			}
		}
		if !joined {
			mainProg = append(mainProg, sim.Op{Op: "Join"})
		}
		prog = mainProg
	}
	// final phase: drain, then nEff blocking tasks and one more (slot recovery and tightness)
	prog = append(prog, sim.Op{Op: "Wait"})
	for j := 0; j < nEff+1; j++ {
		c.Ops = append(c.Ops, sim.Op{Op: "Task", K: r.N(2), D: 2})
		prog = append(prog, sim.Op{Op: "Go", K: nScript + j})
	}
	prog = append(prog, sim.Op{Op: "Wait"})
	c.Programs = [][]sim.Op{prog}
	if len(helperProg) > 0 {
		c.Programs = append(c.Programs, helperProg)
	}
	c.Sched = &sim.SchedCfg{Seed: r.U64() >> 12, Policy: "sticky", StickyPct: []int{0, 50, 80, 95}[r.N(4)], FreezeAt: -1, Probe: -1, MaxSteps: 4000}
	c.EnvSeed = r.U64() >> 12
	return c
}

func TestWorker(t *testing.T) {
	if *fOut == "" {
		t.Skip("not invoked by the driver")
	}
	if p := os.Getenv("VERIF_GOMAXPROCS"); p != "" {
		n := 0
		fmt.Sscan(p, &n)
		if n > 0 {
			runtime.GOMAXPROCS(n)
		}
	}
	os.Setenv("GODEBUG", "panicnil=1") // see task kind 4
	if f, err := os.OpenFile(os.DevNull, os.O_WRONLY, 0); err == nil {
		os.Stdout = f // goz prints recovered panics when no handler is set
	}
	start := time.Now()
	out := sim.NewWorkerOut("C19", *fWorker)
	finish := func() {
		out.WallMs = time.Since(start).Milliseconds()
		if err := sim.WriteJSON(*fOut, out); err != nil {
			fmt.Fprintln(os.Stderr, err)
			os.Exit(2)
		}
	}
	if *fMode == "replay" {
		sim.HangAfter = 30 * time.Second // a single case takes milliseconds; generous, because the machine may be busy
	}
	sim.StartWatchdog(out, finish)
	sim.SetSite(site)
	if *fMode == "replay" {
		c, err := sim.LoadCase(*fCase)
		if err != nil {
			fmt.Fprintln(os.Stderr, "replay:", err)
			os.Exit(2)
		}
		// a case without a recorded schedule (e.g. the crash file of a killed worker) is
		// re-run from its scheduler seed: the same choices as in the original run
		script := c.Schedule
		sim.SetCurrent(c)
		v, info := runCase(t, c, script, *fStrict && script != nil)
		c.Schedule = info.schedule
		c.End = info.end
		c.LogHash = sim.Hex(info.hash)
		c.Violation = v
		out.Runs = 1
		if v != nil {
			out.AddViolation(c)
		} else {
			out.Samples = append(out.Samples, c)
		}
		finish()
		return
	}
	seen := map[uint64]struct{}{}
	deadline := start.Add(time.Duration(*fBudget) * time.Millisecond)
	for i := 0; ; i++ {
		if *fMaxRuns > 0 && i >= *fMaxRuns {
			break
		}
		if *fMaxRuns == 0 && i&7 == 0 && time.Now().After(deadline) {
			break
		}
		ri := i
		if *fReverse && *fMaxRuns > 0 {
			ri = *fMaxRuns - 1 - i
		}
		rs := sim.Mix(*fSeed, "C19", *fWorker, ri)
		r := sim.NewRng(rs)
		c := gen(r, *fTier)
		c.Property, c.Engine, c.Seed = "C19", "B", rs>>12
		if *fCrashFile != "" {
			sim.WriteJSON(*fCrashFile, c)
		}
		sim.SetCurrent(c)
		v, info := runCase(t, c, nil, false)
		c.Schedule = info.schedule
		c.End = info.end
		c.LogHash = sim.Hex(info.hash)
		out.Runs++
		out.Steps += int64(info.steps)
		out.Ends[info.end]++
		out.Faults["preemption"] += info.preempts
		out.Faults["task_panic_injected"] += info.panics
		out.Faults["task_stalled_on_gate"] += info.blocked
		out.Faults["gate_opened_by_scheduler"] += info.gateOpens
		out.Faults["clock_advanced_past_wait_timeout"] += info.ticks
		out.Probes["go_blocked_with_all_slots_busy"] += info.tightProbe
		if info.maxParked >= 3 {
			out.Probes["3+_goroutines_parked_at_once"]++
		}
		if info.newTwice {
			out.Notes = append(out.Notes, "more than one new goroutine appeared in a single step")
		}
		if info.deadlockMsg != "" {
			out.Probes["bubble_ended_with_blocked_goroutines"]++
		}
		if info.maxParked >= 2 && info.preempts >= 1 {
			seen[info.hash] = struct{}{}
		}
		if *fDump {
			verdict := "ok"
			if v != nil {
				verdict = v.Key()
			}
			out.RunHashes = append(out.RunHashes, fmt.Sprintf("%d:%s:%s", rs, c.LogHash, verdict))
		}
		if v != nil {
			c.Violation = v
			out.AddViolation(c)
		} else if len(out.Samples) < 2 && info.maxParked >= 2 {
			out.Samples = append(out.Samples, c)
		}
	}
	if *fReverse {
		for a, b := 0, len(out.RunHashes)-1; a < b; a, b = a+1, b-1 {
			out.RunHashes[a], out.RunHashes[b] = out.RunHashes[b], out.RunHashes[a]
		}
	}
	out.Nontrivial = len(seen)
	if *fHashOut != "" {
		if f, err := os.Create(*fHashOut); err == nil {
			bw := bufio.NewWriter(f)
			var b [8]byte
			for h := range seen {
				binary.LittleEndian.PutUint64(b[:], h)
				bw.Write(b[:])
			}
			bw.Flush()
			f.Close()
			out.HashFile = *fHashOut
		}
	}
	if *fCrashFile != "" {
		os.Remove(*fCrashFile)
	}
	finish()
}
