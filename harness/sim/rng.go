// Package sim is the part of the harness shared by all worker binaries: the single PRNG every
// generated decision comes from, the case (replay) document, violation records, statistics.
package sim

// Rng is splitmix64: one integer decides everything.
type Rng struct{ s uint64 }

func NewRng(seed uint64) *Rng { return &Rng{s: seed} }

func (r *Rng) U64() uint64 {
	r.s += 0x9E3779B97F4A7C15
	z := r.s
	z = (z ^ (z >> 30)) * 0xBF58476D1CE4E5B9
	z = (z ^ (z >> 27)) * 0x94D049BB133111EB
	return z ^ (z >> 31)
}

// N returns a value in [0,n).
func (r *Rng) N(n int) int {
	if n <= 1 {
		return 0
	}
	return int(r.U64() % uint64(n))
}

// Range returns a value in [lo,hi].
func (r *Rng) Range(lo, hi int) int { return lo + r.N(hi-lo+1) }

func (r *Rng) Bool() bool { return r.U64()&1 == 1 }

// Pct is true with probability p/100.
func (r *Rng) Pct(p int) bool { return r.N(100) < p }

// Pick returns one of the weighted alternatives' index.
func (r *Rng) Pick(weights ...int) int {
	t := 0
	for _, w := range weights {
		t += w
	}
	x := r.N(t)
	for i, w := range weights {
		if x < w {
			return i
		}
		x -= w
	}
	return len(weights) - 1
}

func (r *Rng) Bytes(n int) []byte {
	b := make([]byte, n)
	for i := range b {
		b[i] = byte(r.U64())
	}
	return b
}

// Mix derives a run seed from (base, property tag, worker, index).
func Mix(base uint64, tag string, w, i int) uint64 {
	h := base ^ 0xD6E8FEB86659FD93
	for _, c := range []byte(tag) {
		h = (h ^ uint64(c)) * 0x100000001B3
	}
	r := NewRng(h ^ uint64(w)<<40 ^ uint64(i))
	r.U64()
	return r.U64()
}
