//go:build race

package sim

import "runtime"

const RaceEnabled = true

func RaceErrors() int { return runtime.RaceErrors() }
