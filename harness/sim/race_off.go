//go:build !race

package sim

const RaceEnabled = false

func RaceErrors() int { return 0 }
