package sim

import (
	"encoding/json"
	"fmt"
	"os"
	"sort"
)

// Op is one generated operation of a simulated client (Engine A) or of the sequential
// operation history (Engine C).  Fields are generic; each property documents its use.
type Op struct {
	Op string `json:"op"`
	K  int    `json:"k,omitempty"`
	V  int    `json:"v,omitempty"`
	D  int    `json:"d,omitempty"`  // duration in ms for *Wait, stop-after count for Range/All
	Ks []int  `json:"ks,omitempty"` // key lists (Delete, GetWithMap, Map scripts)
	S  string `json:"s,omitempty"`
}

// Rec is the recorded outcome of one operation of one simulated thread.
type Rec struct {
	Started bool   `json:"started"`
	Done    bool   `json:"done"`
	Call    uint64 `json:"call"`
	Ret     uint64 `json:"ret"`
	OK      bool   `json:"ok"`
	V       int    `json:"v"`
	Ks      []int  `json:"ks,omitempty"`
	Vs      []int  `json:"vs,omitempty"`
	S       string `json:"s,omitempty"`
}

type Violation struct {
	Class  string `json:"class"`
	Site   string `json:"site"`
	Detail string `json:"detail"`
}

func (v *Violation) Key() string { return v.Class + "@" + v.Site }

// SchedCfg mirrors core.Config (kept separate so that this package does not import golib).
type SchedCfg struct {
	Seed         uint64  `json:"seed"`
	Policy       string  `json:"policy"` // uniform | sticky | pct | lockstep | script
	StickyPct    int     `json:"sticky_pct,omitempty"`
	PCTDepth     int     `json:"pct_depth,omitempty"`
	PCTLen       int     `json:"pct_len,omitempty"`
	Quanta       []int   `json:"quanta,omitempty"` // lockstep: steps per turn of each thread
	Stalls       []Stall `json:"stalls,omitempty"`
	FreezeAt     int     `json:"freeze_at"`
	Probe        int     `json:"probe"`
	TickPct      int     `json:"tick_pct,omitempty"`
	SpinBurn     int     `json:"spin_burn,omitempty"`
	ClockJumpPct int     `json:"clock_jump_pct,omitempty"`
	MaxSteps     int     `json:"max_steps"`
}

type Stall struct {
	T      int `json:"t"`
	At     int `json:"at"`
	For    int `json:"for"`
	AfterW int `json:"after_w,omitempty"`
	AfterS int `json:"after_s,omitempty"`
}

// Case is the replay document: the explicit decisions of one run, not the seed that
// produced them, so a replay survives changes to the generators.
type Case struct {
	Property string         `json:"property"`
	Engine   string         `json:"engine"`
	Seed     uint64         `json:"seed"` // informational: the run seed that generated it
	Params   map[string]int `json:"params,omitempty"`
	EnvSeed  uint64         `json:"env_seed"`
	// Engine A / B
	Sched    *SchedCfg `json:"sched,omitempty"`
	Programs [][]Op    `json:"programs,omitempty"`
	Schedule []int16   `json:"schedule,omitempty"`
	// Engine C
	Ops []Op           `json:"ops,omitempty"`
	Env map[string]any `json:"env,omitempty"`
	// outcome
	Violation *Violation `json:"violation,omitempty"`
	End       string     `json:"end,omitempty"`
	LogHash   string     `json:"log_hash,omitempty"`
	Trace     []string   `json:"trace,omitempty"`
	History   []string   `json:"history,omitempty"`
	RaceText  string     `json:"race_report,omitempty"`
	// Proc says where in which worker process the case was executed (master seed, worker, run
	// number, tier).  A violation that needs state the code under test keeps in package-level
	// variables across calls does not reproduce from the case alone; replaying the process
	// (the same worker executing its runs 0..Run again) reproduces it exactly.
	Proc *ProcRef `json:"process,omitempty"`
	// ReplayMode "process": the replay file is replayed through Proc, see there.
	ReplayMode string `json:"replay_mode,omitempty"`
}

type ProcRef struct {
	Seed   string `json:"verif_seed"`
	Worker int    `json:"worker"`
	Run    int    `json:"run"`
	Tier   string `json:"tier"`
}

func (c *Case) P(name string) int { return c.Params[name] }

func LoadCase(path string) (*Case, error) {
	b, err := os.ReadFile(path)
	if err != nil {
		return nil, err
	}
	var c Case
	if err := json.Unmarshal(b, &c); err != nil {
		return nil, err
	}
	return &c, nil
}

func WriteJSON(path string, v any) error {
	b, err := json.MarshalIndent(v, "", " ")
	if err != nil {
		return err
	}
	return os.WriteFile(path, append(b, '\n'), 0o644)
}

// WorkerOut is what a worker process reports to the driver.
type WorkerOut struct {
	Property    string         `json:"property"`
	Worker      int            `json:"worker"`
	Runs        int            `json:"runs"`
	Steps       int64          `json:"steps"`
	SimNs       int64          `json:"sim_ns"`
	Nontrivial  int            `json:"nontrivial"`
	HashFile    string         `json:"hash_file,omitempty"` // binary little-endian uint64 hashes of distinct nontrivial runs
	Faults      map[string]int `json:"faults"`
	Probes      map[string]int `json:"probes"`
	Ends        map[string]int `json:"ends"`
	PorcOK      int            `json:"porc_ok"`
	PorcIllegal int            `json:"porc_illegal"`
	PorcUnknown int            `json:"porc_unknown"`
	RaceReports int            `json:"race_reports"`
	Violations  []*Case        `json:"violations,omitempty"`
	ViolCount   map[string]int `json:"viol_count,omitempty"`
	Samples     []*Case        `json:"samples,omitempty"`
	RunHashes   []string       `json:"run_hashes,omitempty"` // determinism self-test: "seed:loghash:verdict"
	WallMs      int64          `json:"wall_ms"`
	Notes       []string       `json:"notes,omitempty"`
}

func NewWorkerOut(prop string, w int) *WorkerOut {
	return &WorkerOut{Property: prop, Worker: w, Faults: map[string]int{}, Probes: map[string]int{}, Ends: map[string]int{}, ViolCount: map[string]int{}}
}

// AddViolation keeps at most 3 cases per (class, site).
func (o *WorkerOut) AddViolation(c *Case) {
	k := c.Violation.Key()
	o.ViolCount[k]++
	if o.ViolCount[k] <= 3 {
		o.Violations = append(o.Violations, c)
	}
}

func SortedKeys(m map[string]int) []string {
	ks := make([]string, 0, len(m))
	for k := range m {
		ks = append(ks, k)
	}
	sort.Strings(ks)
	return ks
}

func Hex(h uint64) string { return fmt.Sprintf("%016x", h) }
