package sim

import (
	"fmt"
	"os"
	"sync/atomic"
	"time"
)

// A run that never ends (a cycle in a linked structure, a loop that no longer terminates) must
// become a verdict, not a hung check.  The worker publishes the case it is executing and a
// progress counter; a watchdog goroutine reports a "hang" violation for that case and ends the
// process when the counter stands still for HangAfter.
var (
	Progress  atomic.Uint64
	current   atomic.Pointer[Case]
	curSite   atomic.Pointer[string]
	HangAfter = 45 * time.Second
)

func SetCurrent(c *Case) { current.Store(c); Progress.Add(1) }

func SetSite(s string) { curSite.Store(&s) }

// StartWatchdog must be called once by the worker main; finish writes the worker report.
func StartWatchdog(out *WorkerOut, finish func()) {
	go func() {
		last := Progress.Load()
		since := time.Now()
		for {
			time.Sleep(500 * time.Millisecond)
			p := Progress.Load()
			if p != last {
				last, since = p, time.Now()
				continue
			}
			c := current.Load()
			if c == nil || time.Since(since) < HangAfter {
				continue
			}
			site := "-"
			if s := curSite.Load(); s != nil {
				site = *s
			}
			cc := *c
			cc.Violation = &Violation{Class: "hang", Site: site, Detail: fmt.Sprintf("the run made no progress for %v: an operation does not terminate", HangAfter)}
			cc.LogHash = "hang"
			out.AddViolation(&cc)
			finish()
			os.Exit(0)
		}
	}()
}
