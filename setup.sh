#!/bin/bash
# builds the framework from files on disk only (offline)
set -e
cd "$(dirname "$0")"
export GOFLAGS=-mod=mod GOPROXY=off GOSUMDB=off GOTOOLCHAIN=local
mkdir -p bin evidence replays
go build -o bin/rewrite ./cmd/rewrite
go build -o bin/verifctl ./cmd/verifctl
echo "setup ok"
